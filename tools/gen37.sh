#!/bin/bash
# Regenerates the C37 contract files of ast/togo and ast/fromgo: a hand-written header (relations on leaves, lists
# and field lists; the list/declaration converters) followed by the clauses gen37 derives from the field lists of
# go/ast and xgo/ast.
set -e
export GOFLAGS=-mod=mod GOPROXY=off GOSUMDB=off GOTOOLCHAIN=local
cd /verif/govc
for dir in togo fromgo; do
  if [ $dir = togo ]; then S=gopast; D=ast; FN=go; TQ=goptoken; else S=ast; D=gopast; FN=gop; TQ=token; fi
  out=/repo/ast/$dir/zz_contracts_verif.go
  {
  cat <<H
//go:build verif

// Contracts checked by /verif/govc (comment-only file; see /verif/DESIGN.md, property C37).
// relE(a, b): b was produced from a by ${FN}Expr; what that means is spelled out per node kind by the generated
// postconditions below (every scalar field equal, every child related), i.e. relE is structural correspondence.
package $dir

//@ ufunc relE(a $S.Expr, b $D.Expr) bool
//@ ufunc supportedE(e $S.Expr) bool
//@ pred relI(a *$S.Ident, b *$D.Ident) := (a == nil <==> b == nil) && (a != nil ==> b.Name == a.Name && b.NamePos == a.NamePos)
//@ pred relB(a *$S.BasicLit, b *$D.BasicLit) := (a == nil <==> b == nil) && (a != nil ==> b.ValuePos == a.ValuePos && int(b.Kind) == int(a.Kind) && b.Value == a.Value)
//@ pred relIs(a []*$S.Ident, b []*$D.Ident) := (a == nil <==> b == nil) && len(a) == len(b) && (forall i in 0..len(a) :: relI(a[i], b[i]))
//@ pred relEs(a []$S.Expr, b []$D.Expr) := len(a) == len(b) && (forall i in 0..len(a) :: relE(a[i], b[i]))
//@ pred relFL(a *$S.FieldList, b *$D.FieldList) := (a == nil <==> b == nil) && (a != nil ==> b.Opening == a.Opening && b.Closing == a.Closing &&
//@        len(b.List) == len(a.List) && (forall i in 0..len(a.List) :: relField(a.List[i], b.List[i])))
//@ pred supportedEs(a []$S.Expr) := forall i in 0..len(a) :: supportedE(a[i])
//@ pred supportedF(f *$S.Field) := f != nil && supportedE(f.Type)
//@ pred supportedFL(a *$S.FieldList) := a == nil || (forall i in 0..len(a.List) :: supportedF(a.List[i]))
//@ pred supportedFT(a *$S.FuncType) := a != nil && supportedFL(a.TypeParams) && supportedFL(a.Params) && supportedFL(a.Results)
//@ pred wfField(v *$S.Field) := supportedF(v)
//@ pred wfFuncType(v *$S.FuncType) := supportedFT(v)
//@ pred wfFuncDecl(v *$S.FuncDecl) := v != nil && supportedFL(v.Recv) && supportedFT(v.Type)
//@ pred wfImportSpec(spec *$S.ImportSpec) := spec != nil
//@ pred wfTypeSpec(spec *$S.TypeSpec) := spec != nil && supportedFL(spec.TypeParams) && supportedE(spec.Type)
//@ pred wfValueSpec(spec *$S.ValueSpec) := spec != nil && supportedE(spec.Type) && supportedEs(spec.Values)
//@
//@ func ${FN}Ident
//@   assigns nothing
//@   ensures relI(v, result)
//@ func ${FN}BasicLit
//@   assigns nothing
//@   ensures relB(v, result)
//@ func ${FN}Idents
//@   assigns nothing
//@   ensures [name-list] relIs(names, result)
//@ loop ${FN}Idents#1
//@   invariant len(ret) == len(names) && fresh(ret) && (forall j in 0..rangeindex+1 :: relI(names[j], ret[j]))
//@ func ${FN}Exprs
//@   requires supportedEs(vals)
//@   assigns nothing
//@   ensures relEs(vals, result)
//@ loop ${FN}Exprs#1
//@   invariant len(ret) == len(vals) && n == len(vals) && fresh(ret) && (forall j in 0..rangeindex+1 :: relE(vals[j], ret[j]))
//@ func ${FN}Type
//@   requires supportedE(v)
//@   assigns nothing
//@   ensures [call.rel] relE(v, result)
//@   ensures v == nil ==> result == nil
//@ func ${FN}FieldList
//@   requires supportedFL(v)
//@   assigns nothing
//@   ensures relFL(v, result)
//@ loop ${FN}FieldList#1
//@   invariant v != nil && len(list) == len(v.List) && fresh(list) && (forall j in 0..rangeindex+1 :: relField(v.List[j], list[j]))
//@
//@ # declarations
//@ pred relSpec(a $S.Spec, b $D.Spec) := (istype(a, *$S.ImportSpec) ==> istype(b, *$D.ImportSpec) && relImportSpec(a.(*$S.ImportSpec), b.(*$D.ImportSpec))) &&
//@        (istype(a, *$S.TypeSpec) ==> istype(b, *$D.TypeSpec) && relTypeSpec(a.(*$S.TypeSpec), b.(*$D.TypeSpec))) &&
//@        (istype(a, *$S.ValueSpec) ==> istype(b, *$D.ValueSpec) && relValueSpec(a.(*$S.ValueSpec), b.(*$D.ValueSpec)))
//@ pred wfSpec(t $TQ.Token, a $S.Spec) := (t == $TQ.IMPORT ==> istype(a, *$S.ImportSpec) && wfImportSpec(a.(*$S.ImportSpec))) &&
//@        (t == $TQ.TYPE ==> istype(a, *$S.TypeSpec) && wfTypeSpec(a.(*$S.TypeSpec))) &&
//@        (t == $TQ.VAR || t == $TQ.CONST ==> istype(a, *$S.ValueSpec) && wfValueSpec(a.(*$S.ValueSpec)))
//@ pred wfGenDecl(v *$S.GenDecl) := v != nil && (v.Tok == $TQ.IMPORT || v.Tok == $TQ.TYPE || v.Tok == $TQ.VAR || v.Tok == $TQ.CONST) &&
//@        (forall i in 0..len(v.Specs) :: wfSpec(v.Tok, v.Specs[i]))
//@ pred relGenDecl(a *$S.GenDecl, b *$D.GenDecl) := b != nil && b.TokPos == a.TokPos && int(b.Tok) == int(a.Tok) && b.Lparen == a.Lparen && b.Rparen == a.Rparen &&
//@        len(b.Specs) == len(a.Specs) && (forall i in 0..len(a.Specs) :: relSpec(a.Specs[i], b.Specs[i]))
//@ func ${FN}GenDecl
//@   requires wfGenDecl(v)
//@   assigns nothing
//@   ensures [GenDecl] relGenDecl(v, result)
//@ loop ${FN}GenDecl#1
//@   invariant wfGenDecl(v) && len(specs) == len(v.Specs) && fresh(specs) && (forall j in 0..rangeindex+1 :: relSpec(v.Specs[j], specs[j]))
//@ pred wfDecl(d $S.Decl) := (istype(d, *$S.GenDecl) || istype(d, *$S.FuncDecl)) &&
//@        (istype(d, *$S.GenDecl) ==> wfGenDecl(d.(*$S.GenDecl))) && (istype(d, *$S.FuncDecl) ==> wfFuncDecl(d.(*$S.FuncDecl)))
//@ pred relDecl(a $S.Decl, b $D.Decl) := (istype(a, *$S.GenDecl) ==> istype(b, *$D.GenDecl) && relGenDecl(a.(*$S.GenDecl), b.(*$D.GenDecl))) &&
//@        (istype(a, *$S.FuncDecl) ==> istype(b, *$D.FuncDecl) && relFuncDecl(a.(*$S.FuncDecl), b.(*$D.FuncDecl)))
//@ func ${FN}Decl
//@   requires wfDecl(decl)
//@   assigns nothing
//@   ensures [Decl] relDecl(decl, result)
//@ func ${FN}Decls
//@   requires forall i in 0..len(decls) :: wfDecl(decls[i])
//@   assigns nothing
//@   ensures [Decls] len(result) == len(decls) && (forall i in 0..len(decls) :: relDecl(decls[i], result[i]))
//@ loop ${FN}Decls#1
//@   invariant len(ret) == len(decls) && fresh(ret) && (forall j in 0..rangeindex+1 :: relDecl(decls[j], ret[j]))
//@ func ASTFile
//@   requires f != nil && mode == 0 && (forall i in 0..len(f.Decls) :: wfDecl(f.Decls[i]))
//@   assigns nothing
//@   ensures [File] result != nil && result.Package == f.Package && relI(f.Name, result.Name) &&
//@            len(result.Decls) == len(f.Decls) && (forall i in 0..len(f.Decls) :: relDecl(f.Decls[i], result.Decls[i]))
//@
H
  go run ./cmd/gen37 $dir
  } > $out
done
