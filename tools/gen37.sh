#!/bin/bash
# Regenerates the C37 contract files of ast/togo and ast/fromgo: a hand-written header (relations on leaves, lists
# and field lists; the list/declaration converters) followed by the clauses gen37 derives from the field lists of
# go/ast and xgo/ast.
set -e
export GOFLAGS=-mod=mod GOPROXY=off GOSUMDB=off GOTOOLCHAIN=local
cd /verif/govc
for dir in togo fromgo; do
  if [ $dir = togo ]; then S=gopast; D=ast; FN=go; else S=ast; D=gopast; FN=gop; fi
  out=/repo/ast/$dir/zz_contracts_verif.go
  {
  cat <<H
//go:build verif

// Contracts checked by /verif/govc (comment-only file; see /verif/DESIGN.md, property C37).
// relE(a, b): b was produced from a by ${FN}Expr; what that means is spelled out per node kind by the generated
// postconditions below (every scalar field equal, every child related), i.e. relE is structural correspondence.
package $dir

//@ ufunc relE(a $S.Expr, b $D.Expr) bool
//@ ufunc supportedE(e $S.Expr) bool
//@ pred relI(a *$S.Ident, b *$D.Ident) := (a == nil <==> b == nil) && (a != nil ==> b.Name == a.Name && b.NamePos == a.NamePos)
//@ pred relB(a *$S.BasicLit, b *$D.BasicLit) := (a == nil <==> b == nil) && (a != nil ==> b.ValuePos == a.ValuePos && int(b.Kind) == int(a.Kind) && b.Value == a.Value)
//@ pred relIs(a []*$S.Ident, b []*$D.Ident) := len(a) == len(b) && (forall i in 0..len(a) :: relI(a[i], b[i]))
//@ pred relEs(a []$S.Expr, b []$D.Expr) := len(a) == len(b) && (forall i in 0..len(a) :: relE(a[i], b[i]))
//@ pred relFL(a *$S.FieldList, b *$D.FieldList) := (a == nil <==> b == nil) && (a != nil ==> b.Opening == a.Opening && b.Closing == a.Closing &&
//@        len(b.List) == len(a.List) && (forall i in 0..len(a.List) :: relField(a.List[i], b.List[i])))
//@ pred supportedEs(a []$S.Expr) := forall i in 0..len(a) :: supportedE(a[i])
//@ pred supportedF(f *$S.Field) := f != nil && supportedE(f.Type)
//@ pred supportedFL(a *$S.FieldList) := a == nil || (forall i in 0..len(a.List) :: supportedF(a.List[i]))
//@ pred supportedFT(a *$S.FuncType) := a != nil && supportedFL(a.TypeParams) && supportedFL(a.Params) && supportedFL(a.Results)
//@ pred wfField(v *$S.Field) := supportedF(v)
//@ pred wfFuncType(v *$S.FuncType) := supportedFT(v)
//@ pred wfFuncDecl(v *$S.FuncDecl) := v != nil && supportedFL(v.Recv) && supportedFT(v.Type)
//@ pred wfImportSpec(spec *$S.ImportSpec) := spec != nil
//@ pred wfTypeSpec(spec *$S.TypeSpec) := spec != nil && supportedFL(spec.TypeParams) && supportedE(spec.Type)
//@ pred wfValueSpec(spec *$S.ValueSpec) := spec != nil && supportedE(spec.Type) && supportedEs(spec.Values)
//@
//@ func ${FN}Ident
//@   assigns nothing
//@   ensures relI(v, result)
//@ func ${FN}BasicLit
//@   assigns nothing
//@   ensures relB(v, result)
//@ func ${FN}Idents
//@   assigns nothing
//@   ensures relIs(names, result)
//@ loop ${FN}Idents#1
//@   invariant len(ret) == len(names) && fresh(ret) && (forall j in 0..rangeindex+1 :: relI(names[j], ret[j]))
//@ func ${FN}Exprs
//@   requires supportedEs(vals)
//@   assigns nothing
//@   ensures relEs(vals, result)
//@ loop ${FN}Exprs#1
//@   invariant len(ret) == len(vals) && n == len(vals) && fresh(ret) && (forall j in 0..rangeindex+1 :: relE(vals[j], ret[j]))
//@ func ${FN}Type
//@   requires supportedE(v)
//@   assigns nothing
//@   ensures relE(v, result) && (v == nil ==> result == nil)
//@ func ${FN}FieldList
//@   requires supportedFL(v)
//@   assigns nothing
//@   ensures relFL(v, result)
//@ loop ${FN}FieldList#1
//@   invariant v != nil && len(list) == len(v.List) && fresh(list) && (forall j in 0..rangeindex+1 :: relField(v.List[j], list[j]))
//@
H
  go run ./cmd/gen37 $dir
  } > $out
done
