#!/usr/bin/env python3
"""Regenerates /verif/MANIFEST.json from tools/claims.json (claimed checks) and tools/na.json (not applicable)."""
import json, subprocess, os
V = '/verif'
claims = json.load(open(f'{V}/tools/claims.json'))
na = json.load(open(f'{V}/tools/na.json'))
baseline = json.load(open('/root/.vp/BASELINE.json'))
commits = subprocess.run(['git', '-C', '/repo', 'log', '--format=%H %s'], capture_output=True, text=True).stdout.strip().split('\n')
hook_commits = [c.split()[0] for c in commits if c.split(' ', 1)[1].startswith('verif:')]
checks = []
for pid in sorted(claims):
    c = claims[pid]
    checks.append({
        'property_id': pid,
        'quick_cmd': f'/verif/bin/govc check -property {pid} -tier quick',
        'thorough_cmd': f'/verif/bin/govc check -property {pid} -tier thorough',
        'evidence_file': f'/verif/evidence/{pid}.json',
        'replay_cmd_template': '/verif/bin/govc replay {path}',
        'engine': 'govc',
        'level_claimed': {'category': 'proof', 'text': c['text'], 'design_ref': c.get('design_ref', 'DESIGN.md §4 ' + pid)},
        'level_note': c['note'],
        'technique': c.get('technique', 'contract-based deductive verification: WP-style VCs over go/ssa from //@ contracts, discharged by z3/cvc5'),
    })
nas = [{'property_id': k, 'reason': v} for k, v in sorted(na.items()) if k not in claims]
m = {
    'version': 1,
    'setup_cmd': 'cd /verif/govc && GOFLAGS=-mod=mod GOPROXY=off GOSUMDB=off GOTOOLCHAIN=local go build -o /verif/bin/govc ./cmd/govc',
    'hooks': {
        'guard': 'verif',
        'enable': '-tags verif (the guarded files zz_contracts_verif.go are comment-only contract files; govc reads them as text)',
        'baseline_off_cmd': baseline['cmd'],
        'source_commits': hook_commits,
        'add_only': True,
    },
    'engines': [{'name': 'govc', 'path': '/verif/govc', 'serves_properties': sorted(claims),
                 'kind_free_text': 'weakest-precondition VC generator over go/ssa (NaiveForm) driven by //@ contracts kept in build-tag-guarded comment files in /repo; obligations discharged by z3 5.1.0 / z3 4.8.12 / cvc5 1.0.3'}],
    'checks': checks,
    'notes': 'Contract-based deductive verification of the real code; see DESIGN.md. Exit 0 = every obligation discharged (or matched by a known finding), 1 = VIOLATION, 2 = engine error.',
    'not_applicable': nas,
}
json.dump(m, open(f'{V}/MANIFEST.json', 'w'), indent=1, ensure_ascii=False)
print('claimed', sorted(claims), 'na', len(nas))
