#!/bin/bash
# Runs the quick check of every claimed property on the current tree; prints one line per property.
cd /verif
rc=0
for p in $(python3 -c "import json;print(' '.join(sorted(json.load(open('tools/claims.json')))))"); do
  out=$(./bin/govc check -property $p -tier quick 2>&1); c=$?
  echo "$p exit=$c $(echo "$out" | grep -E 'discharged over' | tail -1)"
  if [ $c -ne 0 ]; then echo "$out" | grep -E "^VIOLATION|^ENGINE" | head -5; rc=1; fi
done
exit $rc
