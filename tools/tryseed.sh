#!/bin/bash
# usage: tryseed.sh <property> <seed-name> <worktree> <pkgdir-for-demo> [go test args]
# Confirms a seeded change in its scratch worktree (demo fails with it, passes without), stores it under
# /verif/seeded/<seed-name>/, then applies patch.diff to /repo, runs the property's quick check and undoes it.
set -u
P=$1; NAME=$2; WT=$3; PKG=$4; shift 4
export GOFLAGS=-mod=mod GOPROXY=off GOSUMDB=off GOTOOLCHAIN=local
D=/verif/seeded/$NAME; mkdir -p $D
cp $WT/_mutation/patch.diff $D/ 2>/dev/null
cp $WT/_mutation/demo* $D/ 2>/dev/null
cp $WT/_mutation/meta.json $D/agent_meta.json 2>/dev/null
cd $WT
git stash -q -u -- . ':!_mutation' 2>/dev/null; git stash drop -q 2>/dev/null   # start from the prepared HEAD
git checkout -q -- . ; git apply $D/patch.diff || { echo "patch does not apply in worktree"; exit 2; }
go build ./... >/dev/null 2>&1
cp $D/demo_test.go $PKG/zz_seed_demo_test.go
(cd $PKG && go test -vet=off -count=1 -timeout 60s "$@" . > /tmp/seed_with.txt 2>&1); WITH=$?
git checkout -q -- . ; cp $D/demo_test.go $PKG/zz_seed_demo_test.go
(cd $PKG && go test -vet=off -count=1 -timeout 60s "$@" . > /tmp/seed_without.txt 2>&1); WITHOUT=$?
rm -f $PKG/zz_seed_demo_test.go
echo "demo with patch: exit $WITH (want !=0); without patch: exit $WITHOUT (want 0)"
# existing tests of the package still pass with the patch
git apply $D/patch.diff
(cd $PKG && go test -vet=off -count=1 -timeout 300s . > /tmp/seed_pkgtests.txt 2>&1); PT=$?
echo "existing package tests with patch: exit $PT (want 0)"
git checkout -q -- .
# now the real check
cd /repo && git apply $D/patch.diff || { echo "patch does not apply to /repo"; exit 2; }
/verif/bin/govc check -property $P -tier quick -no-evidence > $D/check_output.txt 2>&1; RC=$?
git -C /repo checkout -- .
grep -E "^VIOLATION|^ENGINE|discharged" $D/check_output.txt | head -8
echo "check exit code: $RC"
cat > $D/meta.json <<M
{"property": "$P", "seed": "$NAME", "demo_fails_with_patch": $([ $WITH -ne 0 ] && echo true || echo false), "demo_passes_without_patch": $([ $WITHOUT -eq 0 ] && echo true || echo false), "package_tests_pass_with_patch": $([ $PT -eq 0 ] && echo true || echo false), "check_exit_code": $RC, "detected": $([ $RC -eq 1 ] && echo true || echo false), "ran": "tools/tryseed.sh $P $NAME (worktree confirmation, then git -C /repo apply; govc check -property $P -tier quick; git -C /repo checkout -- .)"}
M
