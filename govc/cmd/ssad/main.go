package main

import (
	"go/types"
	"os"
	"strings"

	"golang.org/x/tools/go/packages"
	"golang.org/x/tools/go/ssa"
	"golang.org/x/tools/go/ssa/ssautil"
)

func main() {
	cfg := &packages.Config{Mode: packages.LoadAllSyntax, Dir: "/repo", Env: append(os.Environ(), "GOFLAGS=-mod=mod", "GOPROXY=off", "GOSUMDB=off", "GOTOOLCHAIN=local")}
	pkgs, _ := packages.Load(cfg, os.Args[1])
	prog, spkgs := ssautil.AllPackages(pkgs, ssa.NaiveForm|ssa.GlobalDebug)
	prog.Build()
	for _, p := range spkgs {
		for _, m := range p.Members {
			if t, ok := m.(*ssa.Type); ok {
				for _, recv := range []interface{}{t.Type()} {
					_ = recv
				}
				for _, rt := range []types.Type{t.Type(), types.NewPointer(t.Type())} {
					ms := prog.MethodSets.MethodSet(rt)
					for i := 0; i < ms.Len(); i++ {
						f := prog.MethodValue(ms.At(i))
						if f != nil && strings.Contains(f.String(), os.Args[2]) {
							f.WriteTo(os.Stdout)
						}
					}
				}
			}
			if f, ok := m.(*ssa.Function); ok && strings.Contains(f.String(), os.Args[2]) {
				f.WriteTo(os.Stdout)
			}
		}
	}
}
