package main

import (
	"flag"
	"fmt"
	"os"
	"path/filepath"
	"sort"
	"strings"
	"time"

	"govc/vc"
)

// verify2: developer entry point — verify every function under contract of some packages (all obligations in parallel)
func verify2Cmd(args []string) {
	fs := flag.NewFlagSet("verify", flag.ExitOnError)
	repo := fs.String("repo", "/repo", "repository")
	only := fs.String("func", "", "only functions whose key contains this")
	timeout := fs.Duration("timeout", 10*time.Second, "solver timeout")
	verbose := fs.Bool("v", false, "list every obligation")
	ext := fs.String("ext", "stdlib.go.spec", "external contract files (comma separated, under /verif/contracts/external)")
	loops := fs.Bool("loops", false, "list loops of selected functions")
	fs.Parse(args)
	eng, err := vc.Load(*repo, fs.Args(), nil)
	if err != nil {
		fatal(2, "%v", err)
	}
	extra := map[string]string{}
	for _, f := range strings.Split(*ext, ",") {
		if f != "" {
			extra[filepath.Join(verifDir, "contracts", "external", f)] = ""
		}
	}
	if err := eng.LoadContracts(extra); err != nil {
		fatal(2, "%v", err)
	}
	pc := &PropConfig{Packages: fs.Args(), External: strings.Split(*ext, ",")}
	for k, fc := range eng.CS.Funcs {
		if fc.Trusted || fc.Iface || (fc.Pkg == "" && *only == "") {
			continue // contracts of external files only when asked for by name
		}
		if *only != "" && !strings.Contains(k, *only) {
			continue
		}
		pc.Funcs = append(pc.Funcs, k)
	}
	sort.Strings(pc.Funcs)
	seen := map[string]bool{}
	for _, gi := range eng.CS.GInvs {
		if !seen[gi.Pkg] && (*only == "" || strings.Contains(gi.Pkg+".init", *only)) {
			seen[gi.Pkg] = true
			pc.Init = append(pc.Init, gi.Pkg)
		}
	}
	if *loops {
		for _, k := range pc.Funcs {
			if fn := eng.FindFunc(k); fn != nil {
				for _, l := range vc.LoopTable(eng, fn) {
					fmt.Println(l)
				}
			}
		}
		return
	}
	smtDir := filepath.Join(verifDir, "work", "smt", "dev")
	os.RemoveAll(smtDir)
	os.MkdirAll(smtDir, 0o755)
	t0 := time.Now()
	res := runProperty("DEV", pc, *repo, nil, loadKF().Findings, *timeout, false, 0, smtDir)
	bad := 0
	perFn := map[string][2]int{}
	for _, ob := range res.Obls {
		good := ob.Result.Status == "unsat"
		if ob.ExpectSat {
			good = ob.Result.Status != "unsat"
		}
		c := perFn[ob.Func]
		c[1]++
		if good {
			c[0]++
		} else {
			bad++
		}
		perFn[ob.Func] = c
		if *verbose || !good {
			cand := ""
			if ob.Result.Candidate != "" {
				cand = " (candidate model)"
			}
			fmt.Printf("  %-5s %-7s %5.2fs %s  [%s] %s%s\n", map[bool]string{true: "ok", false: "FAIL"}[good], ob.Result.Status, ob.Result.Seconds, ob.Name, ob.Pos, ob.Result.File, cand)
		}
	}
	var fns []string
	for f := range perFn {
		fns = append(fns, f)
	}
	sort.Strings(fns)
	for _, f := range fns {
		if c := perFn[f]; c[0] != c[1] || *verbose {
			fmt.Printf("%s: %d/%d\n", f, c[0], c[1])
		}
	}
	for _, e := range res.Errors {
		fmt.Println("ENGINE ERROR:", e)
		bad++
	}
	var miss []string
	for k := range res.Missing {
		miss = append(miss, k)
	}
	sort.Strings(miss)
	for _, k := range miss {
		locs := res.Missing[k]
		if len(locs) > 3 {
			locs = locs[:3]
		}
		fmt.Printf("MISSING CONTRACT: %s (called at %s)\n", k, strings.Join(locs, ", "))
		bad++
	}
	fmt.Printf("%d functions, %d obligations, %d problems, %.1fs\n", len(fns), len(res.Obls), bad, time.Since(t0).Seconds())
	if bad > 0 {
		os.Exit(1)
	}
}
