package main

import (
	"context"
	"encoding/json"
	"fmt"
	"os"
	"os/exec"
	"path/filepath"
	"strings"
	"time"
)

// Mutant is one entry of /verif/selftest/<id>.json: an in-memory edit of a /repo file (via packages overlay).
type Mutant struct {
	Name   string `json:"name"`
	File   string `json:"file"` // relative to the repo
	Old    string `json:"old"`
	New    string `json:"new"`
	Expect string `json:"expect"` // "violation" or "pass"
	Note   string `json:"note"`
}

// selftest runs the must-fail / must-pass corpus of a property. A wrong outcome is an engine error (exit 2).
func selftest(id string, pc *PropConfig, kf *KFFile, seed int) int {
	data, err := os.ReadFile(filepath.Join(verifDir, "selftest", id+".json"))
	if err != nil {
		return 0
	}
	var ms []Mutant
	if err := json.Unmarshal(data, &ms); err != nil {
		fmt.Println("ENGINE ERROR: selftest corpus:", err)
		return 2
	}
	bad := 0
	killed := 0
	for _, m := range ms {
		full := filepath.Join("/repo", m.File)
		src, err := os.ReadFile(full)
		if err != nil {
			fmt.Printf("selftest %s: %v\n", m.Name, err)
			bad++
			continue
		}
		if strings.Count(string(src), m.Old) != 1 {
			fmt.Printf("selftest %s: pattern occurs %d times in %s (corpus out of date)\n", m.Name, strings.Count(string(src), m.Old), m.File)
			bad++
			continue
		}
		mut := strings.Replace(string(src), m.Old, m.New, 1)
		smtDir := filepath.Join(verifDir, "work", "smt", id+"-selftest")
		os.RemoveAll(smtDir)
		os.MkdirAll(smtDir, 0o755)
		res := runProperty(id, pc, "/repo", map[string][]byte{full: []byte(mut)}, kf.Findings, 25*time.Second, false, seed, smtDir)
		outcome := "pass"
		detail := ""
		if len(res.Errors) > 0 {
			outcome = "engine-error"
			if len(res.Errors) > 0 {
				detail = res.Errors[0]
			}
		} else {
			for _, ob := range res.Obls {
				if ob.ExpectSat {
					continue
				}
				if ob.Result.Status != "unsat" {
					outcome = "violation"
					detail = ob.Name
					break
				}
			}
		}
		if outcome == "violation" && m.Expect == "pass" {
			// a harmless mutant flagged: only a timeout/unknown under load may explain it; try once more with a
			// generous limit before calling it a wrong outcome
			res2 := runProperty(id, pc, "/repo", map[string][]byte{full: []byte(mut)}, kf.Findings, 90*time.Second, false, seed, smtDir)
			if len(res2.Errors) == 0 {
				all := true
				for _, ob := range res2.Obls {
					if !ob.ExpectSat && ob.Result.Status != "unsat" {
						all = false
						detail = ob.Name
						break
					}
				}
				if all {
					outcome, detail = "pass", "(second run with a longer limit)"
				}
			}
		}
		ok := outcome == m.Expect
		if ok && m.Expect == "violation" {
			killed++
		}
		fmt.Printf("selftest %-40s expect=%-9s got=%-12s %s %s\n", m.Name, m.Expect, outcome, map[bool]string{true: "ok", false: "WRONG"}[ok], detail)
		if !ok {
			bad++
		}
		os.RemoveAll(smtDir)
	}
	fmt.Printf("selftest %s: %d mutants, %d killed as expected, %d wrong outcomes\n", id, len(ms), killed, bad)
	if bad > 0 {
		fmt.Println("ENGINE ERROR: self-test corpus outcome mismatch")
		return 2
	}
	return 0
}

// runWitnesses re-runs the witness of every known finding of the property against the real code (thorough tier).
// A witness is a Go test file injected with -overlay into WitnessDir; the finding reproduces when the test fails.
func runWitnesses(id string, kf *KFFile) {
	for _, k := range kf.Findings {
		if k.Property != id || k.Witness == "" {
			continue
		}
		if strings.HasSuffix(k.Witness, ".sh") {
			// a script that exercises the real toolchain: exit 1 = the defect reproduces, 0 = it does not
			ctx, cancel := context.WithTimeout(context.Background(), 10*time.Minute)
			out, err := exec.CommandContext(ctx, "bash", k.Witness).CombinedOutput()
			cancel()
			if err != nil {
				fmt.Printf("known finding witness reproduced on the real code: %s (%s)\n", k.Witness, firstLine(lastLines(string(out), 40)))
			} else {
				fmt.Printf("NOTE: the witness of a known finding no longer fails on the real code: %s\n", k.Witness)
			}
			continue
		}
		if k.WitnessDir == "" {
			continue
		}
		tmp, err := os.MkdirTemp(filepath.Join(verifDir, "work"), "witness")
		if err != nil {
			continue
		}
		ov, _ := json.Marshal(map[string]any{"Replace": map[string]string{filepath.Join(k.WitnessDir, "zz_govc_witness_test.go"): k.Witness}})
		ovFile := filepath.Join(tmp, "overlay.json")
		os.WriteFile(ovFile, ov, 0o644)
		out, err := runGoTest(k.WitnessDir, ovFile, "TestGovcWitness", 20)
		os.RemoveAll(tmp)
		if err != nil {
			fmt.Printf("known finding witness reproduced on the real code: %s (%s)\n", k.Witness, firstLine(lastLines(out, 40)))
		} else {
			fmt.Printf("NOTE: the witness of a known finding no longer fails on the real code: %s\n", k.Witness)
		}
	}
}

func lastLines(s string, n int) string {
	for _, l := range strings.Split(s, "\n") {
		if strings.HasPrefix(l, "panic:") || strings.HasPrefix(l, "fatal error:") || strings.HasPrefix(l, "--- FAIL") || strings.HasPrefix(l, "DEFECT") {
			return l
		}
	}
	return s
}

// quickCanary runs the first must-fail entry of the self-test corpus: if the machinery no longer reports a
// violation for a change known to break the property, the pass of the main run cannot be trusted (engine error).
func quickCanary(id string, pc *PropConfig, kf *KFFile, seed int) int {
	data, err := os.ReadFile(filepath.Join(verifDir, "selftest", id+".json"))
	if err != nil {
		return 0
	}
	var ms []Mutant
	if json.Unmarshal(data, &ms) != nil {
		return 0
	}
	for _, m := range ms {
		if m.Expect != "violation" {
			continue
		}
		full := filepath.Join("/repo", m.File)
		src, err := os.ReadFile(full)
		if err != nil || strings.Count(string(src), m.Old) != 1 {
			fmt.Printf("canary %s: corpus out of date for %s (skipped)\n", m.Name, m.File)
			return 0
		}
		mut := strings.Replace(string(src), m.Old, m.New, 1)
		smtDir := filepath.Join(verifDir, "work", "smt", id+"-canary")
		os.RemoveAll(smtDir)
		os.MkdirAll(smtDir, 0o755)
		res := runProperty(id, pc, "/repo", map[string][]byte{full: []byte(mut)}, kf.Findings, 25*time.Second, false, seed, smtDir)
		os.RemoveAll(smtDir)
		if len(res.Errors) > 0 {
			fmt.Printf("canary %s: engine error on the mutated tree (not counted)\n", m.Name)
			return 0
		}
		for _, ob := range res.Obls {
			if !ob.ExpectSat && ob.Result.Status != "unsat" {
				fmt.Printf("canary %s: reported as expected (%s)\n", m.Name, ob.Name)
				return 0
			}
		}
		fmt.Printf("ENGINE ERROR: canary %s (a change known to break %s) was NOT reported: the check is vacuous\n", m.Name, id)
		return 2
	}
	return 0
}
