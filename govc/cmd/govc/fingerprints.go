package main

import (
	"encoding/json"
	"fmt"
	"os"
	"path/filepath"
	"regexp"
	"strings"

	"govc/vc"
)

func fingerprintFile(id string) string { return filepath.Join(verifDir, "fingerprints", id+".json") }

func loadFingerprints(id string) map[string]vc.Fingerprint {
	m := map[string]vc.Fingerprint{}
	data, err := os.ReadFile(fingerprintFile(id))
	if err != nil {
		return m
	}
	json.Unmarshal(data, &m)
	return m
}

// fingerprintCmd records the SSA shape (modulo local names) of every function under contract of a property, taken
// from the current tree. The record is committed; checks compare against it to tell a renamed local (followed
// silently) from changed code that the contract no longer describes (reported as undecided = violation).
func fingerprintCmd(args []string) {
	props := loadProps()
	ids := args
	if len(ids) == 0 {
		for id := range props {
			ids = append(ids, id)
		}
	}
	os.MkdirAll(filepath.Join(verifDir, "fingerprints"), 0o755)
	for _, id := range ids {
		pc := props[id]
		if pc == nil {
			fatal(2, "unknown property %s", id)
		}
		eng, err := vc.Load("/repo", pc.Packages, nil)
		if err != nil {
			fatal(2, "%v", err)
		}
		m := map[string]vc.Fingerprint{}
		for _, k := range pc.Funcs {
			fn := eng.FindFunc(k)
			if fn == nil {
				fatal(2, "no function %s", k)
			}
			m[k] = vc.FingerprintOf(fn)
		}
		data, _ := json.MarshalIndent(m, "", " ")
		os.WriteFile(fingerprintFile(id), append(data, '\n'), 0o644)
		fmt.Printf("%s: %d fingerprints\n", id, len(m))
	}
}

func isContractErr(msg string) bool {
	return strings.Contains(msg, "contract error:") || strings.Contains(msg, "has no loop contract") || strings.Contains(msg, "loop contract ") || strings.Contains(msg, "unsupported:")
}

// undecided builds the report unit for a function whose code changed in a way its contract cannot follow: the
// property is undecided for it, which is reported as a violation without a failing input.
func undecided(key, why string) *vc.Emitter {
	em := vc.NewEmitter()
	ob := &vc.Obligation{Name: key + "/contract-applies", Kind: "contract", Func: key, PC: "true", Goal: "false",
		Detail: why, Result: &vc.SolveResult{Status: "undecided", Output: "the code of " + key + " differs from the recorded shape and its contract can no longer be applied: " + why, All: map[string]string{}}}
	em.Obls = append(em.Obls, ob)
	return em
}

var partRe = regexp.MustCompile(`\.\d+@`)

// normAnchor drops the conjunct number of a split postcondition ("post:inv.3@ret1" -> "post:inv@ret1"): anchors name
// the clause, however many obligations it is split into.
func normAnchor(s string) string { return partRe.ReplaceAllString(s, "@") }
