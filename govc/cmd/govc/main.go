package main

import (
	"flag"
	"fmt"
	"os"
	"sort"
	"strings"
	"time"

	"govc/vc"
)

func main() {
	if len(os.Args) < 2 {
		fmt.Fprintln(os.Stderr, "usage: govc <verify|check|replay> ...")
		os.Exit(2)
	}
	switch os.Args[1] {
	case "verify":
		verify2Cmd(os.Args[2:])
	case "verify-seq":
		verifyCmd(os.Args[2:])
	case "check":
		checkCmd(os.Args[2:])
	case "replay":
		replayCmd(os.Args[2:])
	case "fingerprint":
		fingerprintCmd(os.Args[2:])
	default:
		fmt.Fprintln(os.Stderr, "unknown command")
		os.Exit(2)
	}
}

// verify: developer entry point — verify the functions under contract of some packages
func verifyCmd(args []string) {
	fs := flag.NewFlagSet("verify", flag.ExitOnError)
	repo := fs.String("repo", "/repo", "repository")
	only := fs.String("func", "", "only functions whose key contains this")
	timeout := fs.Duration("timeout", 10*time.Second, "solver timeout")
	verbose := fs.Bool("v", false, "list every obligation")
	dump := fs.Bool("ssa", false, "dump SSA of selected functions")
	extra := fs.String("contracts", "", "extra contract files: file=pkgpath,...")
	fs.Parse(args)
	t0 := time.Now()
	eng, err := vc.Load(*repo, fs.Args(), nil)
	if err != nil {
		fmt.Fprintln(os.Stderr, err)
		os.Exit(2)
	}
	ex := map[string]string{}
	if *extra != "" {
		for _, kv := range strings.Split(*extra, ",") {
			f, p, _ := strings.Cut(kv, "=")
			ex[f] = p
		}
	}
	if err := eng.LoadContracts(ex); err != nil {
		fmt.Fprintln(os.Stderr, err)
		os.Exit(2)
	}
	fmt.Printf("loaded in %.1fs\n", time.Since(t0).Seconds())
	var keys []string
	for k, fc := range eng.CS.Funcs {
		if fc.Trusted || fc.Iface {
			continue
		}
		if *only != "" && !strings.Contains(k, *only) {
			continue
		}
		keys = append(keys, k)
	}
	sort.Strings(keys)
	os.MkdirAll("/verif/work/smt", 0o755)
	solver := &vc.Solver{Dir: "/verif/work/smt", Timeout: *timeout, Jobs: 16}
	bad := 0
	type job struct {
		key string
		fn  interface{}
	}
	initPkgs := map[string]bool{}
	for _, gi := range eng.CS.GInvs {
		if !initPkgs[gi.Pkg] && (*only == "" || strings.Contains(gi.Pkg+".init", *only)) {
			initPkgs[gi.Pkg] = true
			fn, fc := eng.InitContract(gi.Pkg)
			if fn == nil {
				continue
			}
			em, err := eng.VerifyFunc(fn, fc)
			if err != nil {
				fmt.Printf("ERROR: %v\n", err)
				bad++
				continue
			}
			solver.SolveAll(em, em.Obls)
			ok := 0
			for _, ob := range em.Obls {
				good := ob.Result.Status == "unsat"
				if ob.ExpectSat {
					good = ob.Result.Status != "unsat"
				}
				if good {
					ok++
				} else {
					bad++
				}
				if *verbose || !good {
					fmt.Printf("  %-8s %-7s %5.2fs %s  [%s] %s\n", map[bool]string{true: "ok", false: "FAIL"}[good], ob.Result.Status, ob.Result.Seconds, ob.Name, ob.Pos, ob.Result.File)
				}
			}
			fmt.Printf("%s.init: %d/%d obligations discharged\n", gi.Pkg, ok, len(em.Obls))
		}
	}
	for _, k := range keys {
		fn := eng.FindFunc(k)
		if fn == nil {
			fmt.Printf("ERROR: no function for contract %s\n", k)
			bad++
			continue
		}
		if *dump {
			fn.WriteTo(os.Stdout)
		}
		em, err := eng.VerifyFunc(fn, eng.CS.Funcs[k])
		if err != nil {
			fmt.Printf("ERROR: %v\n", err)
			bad++
			continue
		}
		solver.SolveAll(em, em.Obls)
		ok, n := 0, 0
		for _, ob := range em.Obls {
			n++
			good := ob.Result.Status == "unsat"
			if ob.ExpectSat {
				good = ob.Result.Status != "unsat"
			}
			if good {
				ok++
			} else {
				bad++
			}
			if *verbose || !good {
				fmt.Printf("  %-8s %-7s %5.2fs %s  [%s] %s\n", map[bool]string{true: "ok", false: "FAIL"}[good], ob.Result.Status, ob.Result.Seconds, ob.Name, ob.Pos, ob.Result.File)
			}
		}
		fmt.Printf("%s: %d/%d obligations discharged\n", k, ok, n)
	}
	for _, e := range eng.Errors {
		fmt.Println("ENGINE ERROR:", e)
		bad++
	}
	var miss []string
	for k := range eng.Missing {
		miss = append(miss, k)
	}
	sort.Strings(miss)
	for _, k := range miss {
		fmt.Printf("MISSING CONTRACT: %s (called at %s)\n", k, strings.Join(eng.Missing[k], ", "))
		bad++
	}
	if bad > 0 {
		os.Exit(1)
	}
}
