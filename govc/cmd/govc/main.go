package main

import (
	"fmt"
	"os"

	"golang.org/x/tools/go/packages"
	"golang.org/x/tools/go/ssa"
	"golang.org/x/tools/go/ssa/ssautil"
)

func main() {
	cfg := &packages.Config{Mode: packages.LoadAllSyntax, Dir: "/repo", BuildFlags: []string{"-tags", "verif"},
		Env: append(os.Environ(), "GOFLAGS=-mod=mod", "GOPROXY=off", "GOSUMDB=off", "GOTOOLCHAIN=local")}
	pkgs, err := packages.Load(cfg, os.Args[1])
	if err != nil {
		panic(err)
	}
	prog, spkgs := ssautil.AllPackages(pkgs, ssa.NaiveForm|ssa.GlobalDebug)
	prog.Build()
	for _, p := range spkgs {
		if p == nil {
			continue
		}
		for _, name := range os.Args[2:] {
			if f := p.Func(name); f != nil {
				f.WriteTo(os.Stdout)
			}
		}
	}
	fmt.Println("ok")
}
