package main

import (
	"context"
	"encoding/json"
	"fmt"
	"go/types"
	"os"
	"os/exec"
	"path/filepath"
	"regexp"
	"strings"
	"time"

	"golang.org/x/tools/go/ssa"
	"govc/vc"
)

var defFunRe = regexp.MustCompile(`\(define-fun\s+(p_[A-Za-z0-9_$.]+)!\d+\s+\(\)\s+(Int|Bool)\s+(\(-\s*\d+\)|-?\d+|true|false)\)`)

// modelParams extracts scalar parameter values (p_<name>!k constants) from a solver model.
func modelParams(model string) map[string]string {
	m := map[string]string{}
	flat := strings.Join(strings.Fields(model), " ")
	for _, g := range defFunRe.FindAllStringSubmatch(flat, -1) {
		v := g[3]
		if strings.HasPrefix(v, "(-") {
			v = "-" + strings.TrimSpace(strings.Trim(v[2:], " )"))
		}
		m[strings.TrimPrefix(g[1], "p_")] = v
	}
	return m
}

func scalar(t types.Type) bool {
	b, ok := t.Underlying().(*types.Basic)
	return ok && b.Info()&(types.IsInteger|types.IsBoolean) != 0
}

// replayScalar tries to reproduce a panic-site violation of a function whose parameters are all scalars by calling
// the real function (in-package test injected with -overlay, nothing is written to the repo).
func replayScalar(repo string, fn *ssa.Function, ob *vc.Obligation) string {
	switch ob.Kind {
	case "bounds", "slice", "nil", "assert-type", "div0", "neg-make", "nil-map-write", "panic":
	default:
		return ""
	}
	model := ob.Result.Output
	if ob.Result.Status != "sat" {
		model = ob.Result.Candidate
	}
	if model == "" || fn == nil || fn.Pkg == nil || fn.Parent() != nil {
		return ""
	}
	vals := modelParams(model)
	var args []string
	var recv string
	for i, p := range fn.Params {
		if !scalar(p.Type()) {
			return ""
		}
		v, ok := vals[p.Name()]
		if !ok {
			v = "0"
			if b := p.Type().Underlying().(*types.Basic); b.Info()&types.IsBoolean != 0 {
				v = "false"
			}
		}
		tn := types.TypeString(p.Type(), func(pk *types.Package) string {
			if pk == fn.Pkg.Pkg {
				return ""
			}
			return pk.Name()
		})
		if b := p.Type().Underlying().(*types.Basic); b.Info()&types.IsInteger != 0 {
			// skip values outside the type's range (spurious candidate)
			v = fmt.Sprintf("%s(%s)", tn, v)
		}
		if i == 0 && fn.Signature.Recv() != nil {
			recv = v
			continue
		}
		args = append(args, v)
	}
	call := fn.Name() + "(" + strings.Join(args, ", ") + ")"
	if recv != "" {
		call = recv + "." + call
	}
	dir := ""
	for _, f := range fn.Pkg.Pkg.Scope().Names() {
		_ = f
	}
	pos := fn.Prog.Fset.Position(fn.Pos())
	dir = filepath.Dir(pos.Filename)
	tmp, err := os.MkdirTemp(filepath.Join(verifDir, "work"), "replay")
	if err != nil {
		return ""
	}
	defer os.RemoveAll(tmp)
	src := fmt.Sprintf("package %s\n\nimport \"testing\"\n\nfunc TestGovcReplay(t *testing.T) {\n\tdefer func() {\n\t\tif r := recover(); r != nil {\n\t\t\tt.Fatalf(\"GOVC-PANIC: %%v\", r)\n\t\t}\n\t}()\n\t%s\n}\n", fn.Pkg.Pkg.Name(), call)
	testFile := filepath.Join(tmp, "replay_test.go")
	os.WriteFile(testFile, []byte(src), 0o644)
	ov, _ := json.Marshal(map[string]any{"Replace": map[string]string{filepath.Join(dir, "zz_govc_replay_test.go"): testFile}})
	ovFile := filepath.Join(tmp, "overlay.json")
	os.WriteFile(ovFile, ov, 0o644)
	ctx, cancel := context.WithTimeout(context.Background(), 120*time.Second)
	defer cancel()
	cmd := exec.CommandContext(ctx, "go", "test", "-overlay", ovFile, "-vet=off", "-count=1", "-timeout", "60s", "-run", "^TestGovcReplay$", ".")
	cmd.Dir = dir
	cmd.Env = append(os.Environ(), "GOFLAGS=-mod=mod", "GOPROXY=off", "GOSUMDB=off", "GOTOOLCHAIN=local")
	out, _ := cmd.CombinedOutput()
	if i := strings.Index(string(out), "GOVC-PANIC: "); i >= 0 {
		line := string(out)[i+len("GOVC-PANIC: "):]
		if j := strings.IndexByte(line, '\n'); j >= 0 {
			line = line[:j]
		}
		return fmt.Sprintf("failing input: %s panics on the real code: %s", call, line)
	}
	return fmt.Sprintf("candidate %s did not panic on the real code", call)
}

// runGoTest runs one injected test of a repo package with the sandbox's offline Go settings.
func runGoTest(dir, overlay, run string, timeoutSec int) (string, error) {
	ctx, cancel := context.WithTimeout(context.Background(), time.Duration(timeoutSec+100)*time.Second)
	defer cancel()
	cmd := exec.CommandContext(ctx, "go", "test", "-overlay", overlay, "-vet=off", "-count=1", "-timeout", fmt.Sprintf("%ds", timeoutSec), "-run", run, ".")
	cmd.Dir = dir
	cmd.Env = append(os.Environ(), "GOFLAGS=-mod=mod", "GOPROXY=off", "GOSUMDB=off", "GOTOOLCHAIN=local")
	out, err := cmd.CombinedOutput()
	return string(out), err
}
