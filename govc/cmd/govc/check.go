package main

import (
	"encoding/json"
	"flag"
	"fmt"
	"os"
	"path/filepath"
	"sort"
	"strconv"
	"strings"
	"time"

	"govc/vc"
)

// PropConfig describes how one property is decided (from /verif/props.json).
type PropConfig struct {
	Packages  []string `json:"packages"`
	External  []string `json:"external"`  // contract files under /verif/contracts/external
	Funcs     []string `json:"funcs"`     // function keys under contract that carry this property
	Init      []string `json:"init"`      // packages whose initialiser is verified against its ginvs
	Lemmas    []string `json:"lemmas"`    // lemma names to prove
	MinObl    int      `json:"min_obligations"`
	Anchors   []string `json:"anchors"`   // obligation names that must exist
	Bounded   []string `json:"bounded"`   // descriptions of bounded stand-ins (never counted as proved)
	Unverified []string `json:"unverified"`
	Replayer  string   `json:"replayer"`
}

type KnownFinding struct {
	Property   string `json:"property"`
	Obligation string `json:"obligation"`
	Except     string `json:"except"`
	What       string `json:"what"`
	Witness    string `json:"witness"`
	WitnessDir string `json:"witness_dir"`
}

type KFFile struct {
	Findings []KnownFinding `json:"findings"`
	Fixed    []string       `json:"fixed"`
}

const verifDir = "/verif"

func loadProps() map[string]*PropConfig {
	data, err := os.ReadFile(filepath.Join(verifDir, "props.json"))
	if err != nil {
		fatal(2, "props.json: %v", err)
	}
	m := map[string]*PropConfig{}
	if err := json.Unmarshal(data, &m); err != nil {
		fatal(2, "props.json: %v", err)
	}
	return m
}

func loadKF() *KFFile {
	kf := &KFFile{}
	data, err := os.ReadFile(filepath.Join(verifDir, "known_findings.json"))
	if err != nil {
		return kf
	}
	if err := json.Unmarshal(data, kf); err != nil {
		fatal(2, "known_findings.json: %v", err)
	}
	return kf
}

func fatal(code int, f string, a ...any) {
	fmt.Fprintf(os.Stderr, "govc: "+f+"\n", a...)
	os.Exit(code)
}

type checkResult struct {
	Obls       []*vc.Obligation
	Emitters   map[*vc.Obligation]*vc.Emitter
	Funcs      []funcInfo
	Errors     []string
	Missing    map[string][]string
	Assumed    map[string]bool
	LoadSecs   float64
	Eng        *vc.Engine
	SolveSecs  float64
}

type funcInfo struct {
	Key    string `json:"key"`
	Instrs int    `json:"ssa_instructions"`
	Obls   int    `json:"obligations"`
}

// runProperty generates and discharges all obligations of a property on the tree at repo (with optional overlay).
func runProperty(id string, pc *PropConfig, repo string, overlay map[string][]byte, kfs []KnownFinding, timeout time.Duration, cross bool, seed int, smtDir string) *checkResult {
	res := &checkResult{Emitters: map[*vc.Obligation]*vc.Emitter{}, Assumed: map[string]bool{}}
	t0 := time.Now()
	eng, err := vc.Load(repo, pc.Packages, overlay)
	if err != nil {
		res.Errors = append(res.Errors, "load: "+err.Error())
		return res
	}
	eng.DeepVacuity = cross || os.Getenv("GOVC_DEEP") != ""
	extra := map[string]string{}
	for _, f := range pc.External {
		extra[filepath.Join(verifDir, "contracts", "external", f)] = ""
	}
	if err := eng.LoadContracts(extra); err != nil {
		res.Errors = append(res.Errors, "contracts: "+err.Error())
		return res
	}
	res.LoadSecs = time.Since(t0).Seconds()
	res.Eng = eng
	kfByObl := map[string][]vc.KFExcept{}
	for _, k := range kfs {
		if k.Property == id {
			kfByObl[k.Obligation] = append(kfByObl[k.Obligation], vc.KFExcept{Except: k.Except, What: k.What})
		}
	}
	eng.KnownFindings = kfByObl
	changed := eng.ApplyFingerprints(loadFingerprints(id), pc.Funcs)
	type unit struct {
		key string
		em  *vc.Emitter
	}
	var units []unit
	for _, p := range pc.Init {
		fn, fc := eng.InitContract(p)
		if fn == nil {
			res.Errors = append(res.Errors, "no ginv for package "+p)
			continue
		}
		em, err := eng.VerifyFunc(fn, fc)
		if err != nil {
			res.Errors = append(res.Errors, err.Error())
			continue
		}
		units = append(units, unit{p + ".init", em})
		res.Funcs = append(res.Funcs, funcInfo{Key: p + ".init", Instrs: vc.CountInstrs(fn), Obls: len(em.Obls)})
	}
	for _, k := range pc.Funcs {
		fc := eng.CS.Funcs[k]
		if fc == nil {
			res.Errors = append(res.Errors, "no contract for "+k)
			continue
		}
		fn := eng.FindFunc(k)
		if fn == nil {
			res.Errors = append(res.Errors, "contract out of date: no function "+k)
			continue
		}
		nErr := len(eng.Errors)
		em, err := eng.VerifyFunc(fn, fc)
		if changed[k] {
			// the code differs from the recorded shape: if the contract cannot be applied to it any more, the property
			// is undecided for this function — reported as a violation, not as an engine error
			why := ""
			if err != nil && isContractErr(err.Error()) {
				why = err.Error()
			}
			var keep []string
			for _, e := range eng.Errors[nErr:] {
				if isContractErr(e) {
					why += " " + e
				} else {
					keep = append(keep, e)
				}
			}
			if why != "" {
				eng.Errors = append(eng.Errors[:nErr], keep...)
				units = append(units, unit{k, undecided(k, strings.TrimSpace(why))})
				res.Funcs = append(res.Funcs, funcInfo{Key: k, Instrs: vc.CountInstrs(fn), Obls: 1})
				continue
			}
		}
		if err != nil {
			res.Errors = append(res.Errors, err.Error())
			continue
		}
		units = append(units, unit{k, em})
		res.Funcs = append(res.Funcs, funcInfo{Key: k, Instrs: vc.CountInstrs(fn), Obls: len(em.Obls)})
	}
	for _, name := range pc.Lemmas {
		em, err := eng.VerifyLemma(name)
		if err != nil {
			res.Errors = append(res.Errors, err.Error())
			continue
		}
		units = append(units, unit{"lemma " + name, em})
		res.Funcs = append(res.Funcs, funcInfo{Key: "lemma " + name, Obls: len(em.Obls)})
	}
	res.Errors = append(res.Errors, eng.Errors...)
	res.Missing = eng.Missing
	solver := &vc.Solver{Dir: smtDir, Timeout: timeout, Jobs: 16, Seed: seed, Cross: cross}
	t1 := time.Now()
	// solve all units' obligations together for parallelism
	type item struct {
		em *vc.Emitter
		ob *vc.Obligation
	}
	var items []item
	for _, u := range units {
		for _, ob := range u.em.Obls {
			items = append(items, item{u.em, ob})
			res.Obls = append(res.Obls, ob)
			res.Emitters[ob] = u.em
		}
		for a := range u.em.Assumed {
			res.Assumed[a] = true
		}
	}
	done := make(chan struct{}, len(items))
	sem := make(chan struct{}, 16)
	for _, it := range items {
		sem <- struct{}{}
		go func(it item) {
			defer func() { <-sem; done <- struct{}{} }()
			if it.ob.Result != nil {
				return // decided without a solver (undecided contract applicability)
			}
			solver.SolveAll(it.em, []*vc.Obligation{it.ob})
		}(it)
	}
	for range items {
		<-done
	}
	if overlay == nil {
		// A timeout on a heavily loaded machine (several checks running side by side) is not a verdict: the few
		// obligations that timed out are tried once more, two at a time, with three times the limit.
		var again []item
		for _, it := range items {
			if r := it.ob.Result; r != nil && !it.ob.ExpectSat && r.Status == "timeout" {
				again = append(again, it)
			}
		}
		if len(again) > 0 && len(again) <= 6 {
			slow := &vc.Solver{Dir: smtDir, Timeout: 3 * timeout, Jobs: 1, Seed: seed, Cross: false}
			sem2 := make(chan struct{}, 2)
			done2 := make(chan struct{}, len(again))
			for _, it := range again {
				sem2 <- struct{}{}
				go func(it item) {
					defer func() { <-sem2; done2 <- struct{}{} }()
					first := it.ob.Result
					slow.SolveAll(it.em, []*vc.Obligation{it.ob})
					if it.ob.Result == nil || it.ob.Result.Status != "unsat" {
						it.ob.Result = first
					}
				}(it)
			}
			for range again {
				<-done2
			}
		}
	}
	res.SolveSecs = time.Since(t1).Seconds()
	return res
}

func checkCmd(args []string) {
	fs := flag.NewFlagSet("check", flag.ExitOnError)
	prop := fs.String("property", "", "property id")
	tier := fs.String("tier", "", "quick|thorough")
	repo := fs.String("repo", "/repo", "repository")
	verbose := fs.Bool("v", false, "verbose")
	noEvidence := fs.Bool("no-evidence", false, "do not write evidence (selftest)")
	fs.Parse(args)
	if *tier == "" {
		*tier = os.Getenv("VERIF_TIER")
	}
	if *tier == "" {
		*tier = "quick"
	}
	seed, _ := strconv.Atoi(os.Getenv("VERIF_SEED"))
	props := loadProps()
	pc := props[*prop]
	if pc == nil {
		fatal(2, "unknown property %q", *prop)
	}
	kf := loadKF()
	t0 := time.Now()
	// quick tier: obligations on the unchanged tree discharge in a few seconds at most; the generous limit only
	// matters on a heavily loaded machine (a timeout would be a false alarm)
	timeout := 25 * time.Second
	cross := false
	if *tier == "thorough" {
		timeout = 60 * time.Second
		cross = true
	}
	// one directory per property and tier: a quick and a thorough run of the same property may overlap
	smtDir := filepath.Join(verifDir, "work", "smt", *prop+"-"+*tier)
	os.RemoveAll(smtDir)
	os.MkdirAll(smtDir, 0o755)
	res := runProperty(*prop, pc, *repo, nil, kf.Findings, timeout, cross, seed, smtDir)
	code := report(*prop, pc, res, *tier, seed, *verbose, time.Since(t0), !*noEvidence, nil)
	if *tier == "thorough" {
		runWitnesses(*prop, kf)
	}
	if *tier == "quick" && code == 0 && time.Since(t0) < 45*time.Second {
		// vacuity guard of the whole pipeline: one must-fail canary from the self-test corpus on every run
		if c := quickCanary(*prop, pc, kf, seed); c != 0 {
			code = c
		}
	}
	if *tier == "thorough" && code == 0 {
		code = selftest(*prop, pc, kf, seed)
	}
	os.Exit(code)
}

type violation struct {
	ob     *vc.Obligation
	replay string
	found  bool
}

// report evaluates the results, writes replay files and evidence, prints the interface lines. Returns the exit code.
func report(id string, pc *PropConfig, res *checkResult, tier string, seed int, verbose bool, wall time.Duration, writeEvidence bool, extraCov map[string]any) int {
	if len(res.Errors) > 0 {
		for _, e := range res.Errors {
			fmt.Println("ENGINE ERROR:", e)
		}
		return 2
	}
	// a call to a function without contract (none on the unchanged tree; a code change may introduce one) is treated
	// as returning arbitrary values and leaving the heap alone — recorded as an assumption, the obligations that
	// depend on its result then fail and are reported
	{
		var miss []string
		for k := range res.Missing {
			miss = append(miss, k)
		}
		sort.Strings(miss)
		for _, k := range miss {
			fmt.Printf("note: call of %s has no contract: result arbitrary, heap assumed unchanged (at %s)\n", k, res.Missing[k][0])
			res.Assumed["uncontracted call of "+k+": arbitrary result, heap assumed unchanged"] = true
		}
	}
	byKind := map[string]int{}
	byBackend := map[string]int{}
	var solverSecs float64
	nObl, nDis, nVac := 0, 0, 0
	var viols, vacFailed []*vc.Obligation
	var kfLines []string
	var samples []any
	present := map[string]bool{}
	for _, ob := range res.Obls {
		present[ob.Name] = true
		present[normAnchor(ob.Name)] = true
		solverSecs += ob.Result.Seconds
		if ob.ExpectSat {
			nVac++
			if ob.Result.Status == "unsat" {
				vacFailed = append(vacFailed, ob)
			}
			continue
		}
		if ob.Result.Status == "error" {
			fmt.Printf("ENGINE ERROR: solver rejected the VC of %s (%s): %s\n", ob.Name, ob.Result.File, firstLine(ob.Result.Output))
			return 2
		}
		nObl++
		byKind[ob.Kind]++
		if ob.Result.Status == "unsat" {
			nDis++
			byBackend[ob.Result.Backend]++
			if ob.KnownFinding != "" {
				kfLines = append(kfLines, fmt.Sprintf("KNOWN-FINDING: property=%s %s [obligation %s holds outside the recorded failing class]", id, ob.KnownFinding, ob.Name))
			}
			if len(samples) < 5 || (ob.Kind == "post" && len(samples) < 12) {
				samples = append(samples, map[string]any{"obligation": ob.Name, "kind": ob.Kind, "at": ob.Pos.String(), "backend": ob.Result.Backend, "seconds": round3(ob.Result.Seconds)})
			}
		} else {
			viols = append(viols, ob)
		}
		if verbose {
			fmt.Printf("  %-7s %-7s %5.2fs %s [%s]\n", ob.Result.Status, ob.Result.Backend, ob.Result.Seconds, ob.Name, ob.Pos)
		}
	}
	// an unsatisfiable path with every obligation discharged means inconsistent assumptions (contracts or engine);
	// after a failed obligation it is only the usual consequence of assuming the failed goal downstream
	if len(viols) == 0 && len(vacFailed) > 0 {
		for _, ob := range vacFailed {
			fmt.Printf("ENGINE ERROR: inconsistent assumptions: %s is unsatisfiable (%s)\n", ob.Name, ob.Result.File)
		}
		return 2
	}
	// vacuity of the whole check (not applicable when a function's contract could not be applied to changed code:
	// its obligations are then replaced by one undecided obligation, reported below)
	hasUndecided := false
	for _, ob := range viols {
		if ob.Kind == "contract" {
			hasUndecided = true
		}
	}
	if hasUndecided {
	} else if nObl < pc.MinObl {
		fmt.Printf("ENGINE ERROR: only %d obligations generated for %s, floor is %d\n", nObl, id, pc.MinObl)
		return 2
	}
	for _, a := range pc.Anchors {
		if !present[a] && !present[normAnchor(a)] && !hasUndecided {
			fmt.Printf("ENGINE ERROR: anchor obligation %q was not generated\n", a)
			return 2
		}
	}
	sort.Strings(kfLines)
	for _, l := range kfLines {
		fmt.Println(l)
	}
	code := 0
	var violNames []string
	for _, ob := range viols {
		code = 1
		if res.Eng != nil && tier != "selftest" {
			ob.ReplayNote = replayScalar("/repo", res.Eng.FindFunc(ob.Func), ob)
		}
		path := writeReplay(id, ob, res.Emitters[ob])
		suffix := ""
		if !strings.Contains(ob.ReplayNote, "failing input:") {
			suffix = " no-failing-input-found"
		}
		fmt.Printf("VIOLATION property=%s replay=%s%s\n", id, path, suffix)
		fmt.Printf("  obligation %s (%s) at %s: solver says %s\n", ob.Name, ob.Kind, ob.Pos, ob.Result.Status)
		violNames = append(violNames, ob.Name)
	}
	if writeEvidence {
		var assumed []string
		for a := range res.Assumed {
			assumed = append(assumed, a)
		}
		sort.Strings(assumed)
		assumed = append(assumed,
			"integers are mathematical with range facts from their Go type; int/int64 +,-,* assumed not to overflow; unsigned and 8/16-bit arithmetic wraps",
			"go/types, go/ssa (x/tools v0.29.0, NaiveForm) and the SMT solvers are trusted; memory/stack exhaustion ignored",
			"strings are abstract values with length and byte-at functions; equality of two non-constant strings is identity of the abstract value")
		assumed = append(assumed, pc.Unverified...)
		cov := map[string]any{
			"obligations":  nObl,
			"discharged":   nDis,
			"checker_cmd":  fmt.Sprintf("/verif/bin/govc check -property %s -tier %s", id, tier),
			"trusted_base": []string{"go/types + go/ssa (golang.org/x/tools v0.29.0)", "govc VC generator (/verif/govc)", "z3 5.1.0 (z3-new), z3 4.8.12, cvc5 1.0.3", "trusted contracts listed under assumptions"},
			"functions_under_contract": res.Funcs,
			"obligations_by_kind":      byKind,
			"discharged_by_backend":    byBackend,
			"solver_seconds":           round3(solverSecs),
			"vacuity_guards_checked":   nVac,
			"undischarged":             violNames,
			"known_findings":           kfLines,
			"bounded_standins":         pc.Bounded,
			"samples":                  samples,
			"load_seconds":             round3(res.LoadSecs),
		}
		for k, v := range extraCov {
			cov[k] = v
		}
		ev := map[string]any{
			"property_id": id, "tier": tier, "seed": seed, "level": "proof",
			"coverage": cov, "assumptions": assumed, "wall_s": round3(wall.Seconds()), "violations": len(viols),
		}
		os.MkdirAll(filepath.Join(verifDir, "evidence"), 0o755)
		data, _ := json.MarshalIndent(ev, "", " ")
		os.WriteFile(filepath.Join(verifDir, "evidence", id+".json"), append(data, '\n'), 0o644)
	}
	fmt.Printf("%s: %d/%d obligations discharged over %d functions (%d vacuity guards), %.1fs\n", id, nDis, nObl, len(res.Funcs), nVac, wall.Seconds())
	return code
}

func round3(f float64) float64 { return float64(int(f*1000+0.5)) / 1000 }

func firstLine(s string) string {
	s = strings.TrimSpace(s)
	if i := strings.IndexByte(s, '\n'); i >= 0 {
		return s[:i]
	}
	return s
}

func writeReplay(id string, ob *vc.Obligation, em *vc.Emitter) string {
	dir := filepath.Join(verifDir, "replays", id)
	os.MkdirAll(dir, 0o755)
	base := sanitizeFile(ob.Name)
	smt := filepath.Join(dir, base+".smt2")
	os.WriteFile(smt, []byte(em.Render(ob, true)), 0o644)
	out := ob.Result.Output
	if len(out) > 20000 {
		out = out[:20000] + "\n…(truncated)"
	}
	rep := map[string]any{
		"property": id, "obligation": ob.Name, "kind": ob.Kind, "function": ob.Func, "position": ob.Pos.String(),
		"goal": ob.Goal, "path_condition": ob.PC, "smt_file": smt, "solver_status": ob.Result.Status,
		"solver_backends": ob.Result.All, "solver_output": out, "candidate_model_without_quantified_assumptions": ob.Result.Candidate, "replay": ob.ReplayNote,
	}
	path := filepath.Join(dir, base+".json")
	data, _ := json.MarshalIndent(rep, "", " ")
	os.WriteFile(path, append(data, '\n'), 0o644)
	return path
}

func sanitizeFile(s string) string {
	if i := strings.LastIndex(s, "/"); i >= 0 && strings.Contains(s[:i], ".") {
		// keep the function's short name
		pkg := s[:i]
		if j := strings.LastIndex(pkg, "/"); j >= 0 {
			s = pkg[j+1:] + "/" + s[i+1:]
		}
	}
	var b strings.Builder
	for _, c := range s {
		switch {
		case c >= 'a' && c <= 'z', c >= 'A' && c <= 'Z', c >= '0' && c <= '9', c == '.', c == '-', c == '_':
			b.WriteRune(c)
		default:
			b.WriteByte('_')
		}
	}
	r := b.String()
	if len(r) > 120 {
		r = r[:120]
	}
	return r
}

func replayCmd(args []string) {
	if len(args) != 1 {
		fatal(2, "usage: govc replay <replay.json>")
	}
	data, err := os.ReadFile(args[0])
	if err != nil {
		fatal(2, "%v", err)
	}
	var rep map[string]any
	json.Unmarshal(data, &rep)
	fmt.Printf("property %v, obligation %v at %v\n", rep["property"], rep["obligation"], rep["position"])
	smt, _ := rep["smt_file"].(string)
	text, err := os.ReadFile(smt)
	if err != nil {
		fatal(2, "%v", err)
	}
	os.MkdirAll(filepath.Join(verifDir, "work", "smt", "replay"), 0o755)
	s := &vc.Solver{Dir: filepath.Join(verifDir, "work", "smt", "replay"), Timeout: 30 * time.Second, Jobs: 1}
	r := s.Solve("replay", string(text))
	fmt.Printf("solver: %s (%v)\n", r.Status, r.All)
	if note, _ := rep["replay"].(string); note != "" {
		fmt.Println("replay on real code:", note)
	}
	if r.Status != "unsat" {
		fmt.Printf("VIOLATION property=%v replay=%s\n", rep["property"], args[0])
		os.Exit(1)
	}
}
