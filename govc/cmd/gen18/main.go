// gen18 prints, for every struct type of github.com/goplus/xgo/ast that implements ast.Node, its node-valued fields
// in declaration order with the kind of each (node pointer, node interface, list) and whether the field's comment
// says "or nil". The output is the raw material of the children table used by the Walk contract (C18).
package main

import (
	"fmt"
	"go/ast"
	"go/types"
	"os"
	"sort"
	"strings"

	"golang.org/x/tools/go/packages"
)

func main() {
	cfg := &packages.Config{Mode: packages.LoadAllSyntax, Dir: "/repo", Env: append(os.Environ(), "GOFLAGS=-mod=mod", "GOPROXY=off", "GOSUMDB=off", "GOTOOLCHAIN=local")}
	pkgs, err := packages.Load(cfg, "./ast")
	if err != nil || len(pkgs) != 1 {
		panic(err)
	}
	p := pkgs[0]
	node := p.Types.Scope().Lookup("Node").Type().Underlying().(*types.Interface)
	comments := map[string]string{} // "Type.Field" -> comment
	for _, f := range p.Syntax {
		ast.Inspect(f, func(n ast.Node) bool {
			ts, ok := n.(*ast.TypeSpec)
			if !ok {
				return true
			}
			st, ok := ts.Type.(*ast.StructType)
			if !ok {
				return true
			}
			for _, fl := range st.Fields.List {
				c := ""
				if fl.Comment != nil {
					c = fl.Comment.Text()
				}
				for _, nm := range fl.Names {
					comments[ts.Name.Name+"."+nm.Name] = strings.TrimSpace(c)
				}
			}
			return true
		})
	}
	isNodeT := func(t types.Type) string {
		switch u := t.(type) {
		case *types.Pointer:
			if _, ok := u.Elem().Underlying().(*types.Struct); ok && types.Implements(t, node) {
				return "ptr"
			}
		case *types.Named, *types.Alias:
			if it, ok := t.Underlying().(*types.Interface); ok && types.Implements(t, node) && it.NumMethods() > 0 {
				return "iface"
			}
		}
		return ""
	}
	var names []string
	for _, n := range p.Types.Scope().Names() {
		names = append(names, n)
	}
	sort.Strings(names)
	for _, n := range names {
		tn, ok := p.Types.Scope().Lookup(n).(*types.TypeName)
		if !ok {
			continue
		}
		st, ok := tn.Type().Underlying().(*types.Struct)
		if !ok || !types.Implements(types.NewPointer(tn.Type()), node) {
			continue
		}
		var parts []string
		for i := 0; i < st.NumFields(); i++ {
			f := st.Field(i)
			opt := ""
			if strings.Contains(comments[n+"."+f.Name()], "or nil") || strings.Contains(comments[n+"."+f.Name()], "can be nil") || strings.Contains(comments[n+"."+f.Name()], "may be nil") {
				opt = "?"
			}
			if k := isNodeT(f.Type()); k != "" {
				parts = append(parts, fmt.Sprintf("%s%s:%s", f.Name(), opt, k))
				continue
			}
			if sl, ok := f.Type().Underlying().(*types.Slice); ok {
				if k := isNodeT(sl.Elem()); k != "" {
					parts = append(parts, fmt.Sprintf("%s%s:list-%s", f.Name(), opt, k))
				} else if sl2, ok := sl.Elem().Underlying().(*types.Slice); ok && isNodeT(sl2.Elem()) != "" {
					parts = append(parts, fmt.Sprintf("%s:listlist", f.Name()))
				}
			}
		}
		fmt.Printf("%-18s %s\n", n, strings.Join(parts, " "))
	}
}
