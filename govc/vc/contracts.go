package vc

import (
	"fmt"
	"os"
	"regexp"
	"strconv"
	"strings"
)

func unquoteChar(lit string) (rune, bool, string, error) {
	if len(lit) < 2 {
		return 0, false, "", fmt.Errorf("short")
	}
	return strconv.UnquoteChar(lit[1:len(lit)-1], '\'')
}
func unquoteStr(lit string) (string, error) { return strconv.Unquote(lit) }

// Clause is one contract clause with its source location.
type Clause struct {
	Kind  string // requires ensures invariant decreases assigns panics_if assume site ...
	Text  string
	Label string // optional [label]
	Expr  CExpr
	Exprs []CExpr // decreases / assigns lists
	File  string
	Line  int
}

type FuncContract struct {
	Key      string // as written: "ParseOne", "(*Scanner).next", "path/filepath.Ext"
	Pkg      string // package path the file belongs to ("" for external file with full keys)
	Trusted  bool   // body not verified (external or assumed)
	Iface    bool   // contract of an interface method
	Pure     bool   // no heap effect; result is a function of arguments (and read heap)
	NoReturn bool
	Requires []*Clause
	Ensures  []*Clause
	Assigns  []*Clause // each with Exprs
	Decr     *Clause
	PanicsIf []*Clause
	Assume   []*Clause // assumptions at function entry (listed in evidence)
	Sites    []*Clause // "at <selector> assert e"
	Uses     []*Clause // instances of manual axioms assumed at entry
	Options  map[string]string
	File     string
	Line     int
	Used     bool
}

type LoopContract struct {
	Func       string
	Ordinal    int
	Invariants []*Clause
	Decr       *Clause
	Uses       []*Clause // instances of manual axioms assumed at every back edge
	File       string
	Line       int
}

type SpecFunc struct {
	Name    string
	Params  []SpecParam
	Ret     string // Go type text, "" for uninterpreted bool pred
	Body    CExpr  // nil => uninterpreted
	Pkg     string
	File    string
	Line    int
	Axiom   bool
	Math    bool // mfunc: a state-independent function emitted once as an SMT define-fun (keeps terms linear)
}

type SpecParam struct{ Name, Type string }

type Lemma struct {
	Manual bool
	Name string
	Expr CExpr
	Text string
	Pkg  string
	File string
	Line int
}

type ContractSet struct {
	Funcs  map[string]*FuncContract   // key: pkgpath + "." + Key
	Loops  map[string][]*LoopContract // key: full func key
	Specs  map[string]*SpecFunc       // key: pkgpath + "." + name, and plain name for externals
	Axioms []*Lemma                   // assumed
	Lemmas []*Lemma                   // proved
	Ghosts []*GhostVar
	Tables []*GhostVar // ginv_table directives, expanded by Engine.ExpandTables
	Monitors []*Monitor // monitor declarations (vc/monitor.go)
	GInvs  []*Lemma // package-level invariants of globals: proved of the package initialiser, assumed elsewhere
	Files  []string
}

// GhostVar is specification-only state, visible to all contracts of its package ("" = everywhere).
type GhostVar struct {
	Name, Type, Pkg, File string
	Line                  int
}

func NewContractSet() *ContractSet {
	return &ContractSet{Funcs: map[string]*FuncContract{}, Loops: map[string][]*LoopContract{}, Specs: map[string]*SpecFunc{}}
}

var clauseKW = map[string]bool{"requires": true, "ensures": true, "invariant": true, "decreases": true, "assigns": true,
	"pure": true, "noreturn": true, "panics_if": true, "assume": true, "at": true, "option": true, "use": true}
var topKW = map[string]bool{"func": true, "trusted": true, "interface": true, "loop": true, "spec": true, "pred": true,
	"ufunc": true, "mfunc": true, "axiom": true, "lemma": true, "ghost": true, "ginv": true, "ginv_table": true, "monitor": true}

var labelRe = regexp.MustCompile(`^\[([A-Za-z0-9_.-]+)\]\s*`)

// LoadFile parses one contract file. pkgPath is the package the keys are relative to.
func (cs *ContractSet) LoadFile(path, pkgPath string) error {
	data, err := os.ReadFile(path)
	if err != nil {
		return err
	}
	cs.Files = append(cs.Files, path)
	type rawLine struct {
		text string
		line int
	}
	var lines []rawLine
	for i, l := range strings.Split(string(data), "\n") {
		t := strings.TrimSpace(l)
		if !strings.HasPrefix(t, "//@") {
			continue
		}
		t = strings.TrimSpace(t[3:])
		if t == "" || strings.HasPrefix(t, "#") {
			continue
		}
		if k := strings.Index(t, " //#"); k >= 0 { // trailing remark
			t = strings.TrimSpace(t[:k])
		}
		lines = append(lines, rawLine{t, i + 1})
	}
	// join continuation lines
	var items []rawLine
	for _, l := range lines {
		first := l.text
		if k := strings.IndexAny(first, " \t("); k >= 0 {
			first = first[:k]
		}
		if clauseKW[first] || topKW[first] {
			items = append(items, l)
		} else {
			if len(items) == 0 {
				return fmt.Errorf("%s:%d: continuation without clause", path, l.line)
			}
			items[len(items)-1].text += " " + l.text
		}
	}
	var curF *FuncContract
	var curL *LoopContract
	mkClause := func(kind, text string, line int) (*Clause, error) {
		c := &Clause{Kind: kind, Text: text, File: path, Line: line}
		if m := labelRe.FindStringSubmatch(text); m != nil {
			c.Label = m[1]
			text = text[len(m[0]):]
			c.Text = text
		}
		switch kind {
		case "decreases", "assigns":
			es, err := ParseCExprList(text)
			if err != nil {
				return nil, fmt.Errorf("%s:%d: %v", path, line, err)
			}
			c.Exprs = es
		default:
			e, err := ParseCExpr(text)
			if err != nil {
				return nil, fmt.Errorf("%s:%d: %v", path, line, err)
			}
			c.Expr = e
		}
		return c, nil
	}
	for _, it := range items {
		kw, rest, _ := strings.Cut(it.text, " ")
		rest = strings.TrimSpace(rest)
		switch kw {
		case "func", "trusted", "interface":
			curL = nil
			key := qualify(pkgPath, rest)
			if _, dup := cs.Funcs[key]; dup {
				return fmt.Errorf("%s:%d: duplicate contract for %s", path, it.line, key)
			}
			curF = &FuncContract{Key: rest, Pkg: pkgPath, Trusted: kw == "trusted", Iface: kw == "interface", File: path, Line: it.line, Options: map[string]string{}}
			cs.Funcs[key] = curF
		case "loop":
			curF = nil
			name, ord, ok := rest, "", false
			if k := strings.LastIndex(rest, "#"); k >= 0 {
				name, ord, ok = rest[:k], rest[k+1:], true
			}
			n, err := strconv.Atoi(ord)
			if !ok || err != nil {
				return fmt.Errorf("%s:%d: loop key must be func#n", path, it.line)
			}
			curL = &LoopContract{Func: qualify(pkgPath, name), Ordinal: n, File: path, Line: it.line}
			cs.Loops[curL.Func] = append(cs.Loops[curL.Func], curL)
		case "spec", "pred", "ufunc", "mfunc":
			curF, curL = nil, nil
			sf, err := parseSpecFunc(kw, rest)
			if err != nil {
				return fmt.Errorf("%s:%d: %v", path, it.line, err)
			}
			sf.Pkg, sf.File, sf.Line = pkgPath, path, it.line
			k := pkgPath + "." + sf.Name
			if _, dup := cs.Specs[k]; dup {
				return fmt.Errorf("%s:%d: duplicate spec %s", path, it.line, sf.Name)
			}
			cs.Specs[k] = sf
		case "ghost":
			curF, curL = nil, nil
			name, ty, ok := strings.Cut(rest, " ")
			if !ok {
				return fmt.Errorf("%s:%d: ghost <name> <type>", path, it.line)
			}
			cs.Ghosts = append(cs.Ghosts, &GhostVar{Name: name, Type: strings.TrimSpace(ty), Pkg: pkgPath, File: path, Line: it.line})
		case "monitor":
			curF, curL = nil, nil
			m, err := parseMonitor(rest)
			if err != nil {
				return fmt.Errorf("%s:%d: %v", path, it.line, err)
			}
			m.Pkg, m.File, m.Line = pkgPath, path, it.line
			cs.Monitors = append(cs.Monitors, m)
		case "ginv_table":
			curF, curL = nil, nil
			cs.Tables = append(cs.Tables, &GhostVar{Name: rest, Pkg: pkgPath, File: path, Line: it.line})
		case "axiom", "lemma", "ginv":
			curF, curL = nil, nil
			name, body, ok := strings.Cut(rest, ":=")
			if !ok {
				return fmt.Errorf("%s:%d: %s needs name := expr", path, it.line, kw)
			}
			e, err := ParseCExpr(strings.TrimSpace(body))
			if err != nil {
				return fmt.Errorf("%s:%d: %v", path, it.line, err)
			}
			lm := &Lemma{Name: strings.TrimSpace(name), Expr: e, Text: strings.TrimSpace(body), Pkg: pkgPath, File: path, Line: it.line}
			if mn, ok := strings.CutPrefix(lm.Name, "manual "); ok {
				// a manual axiom is never given to the solver as a quantified formula: only its explicitly
				// requested instances ("use name(args)") are assumed — no matching loops
				lm.Name, lm.Manual = strings.TrimSpace(mn), true
			}
			if kw == "ginv" {
				cs.GInvs = append(cs.GInvs, lm)
			} else if kw == "axiom" {
				cs.Axioms = append(cs.Axioms, lm)
			} else {
				cs.Lemmas = append(cs.Lemmas, lm)
			}
		case "pure", "noreturn":
			if curF == nil {
				return fmt.Errorf("%s:%d: %s outside func", path, it.line, kw)
			}
			if kw == "pure" {
				curF.Pure = true
			} else {
				curF.NoReturn = true
			}
		case "option":
			if curF == nil {
				return fmt.Errorf("%s:%d: option outside func", path, it.line)
			}
			k, v, _ := strings.Cut(rest, " ")
			curF.Options[k] = strings.TrimSpace(v)
		case "requires", "ensures", "panics_if", "assume", "assigns", "decreases", "invariant", "at", "use":
			if kw == "at" {
				// at <site> assert <expr>
				if curF == nil {
					return fmt.Errorf("%s:%d: at outside func", path, it.line)
				}
				if site, asg, isSet := strings.Cut(rest, " set "); isSet && !strings.Contains(site, " assert ") {
					gname, gexpr, ok := strings.Cut(asg, "=")
					if !ok {
						return fmt.Errorf("%s:%d: at <site> set <ghost> = <expr>", path, it.line)
					}
					c, err := mkClause("set", strings.TrimSpace(gexpr), it.line)
					if err != nil {
						return err
					}
					c.Kind = "set:" + strings.TrimSpace(site)
					c.Label = strings.TrimSpace(gname)
					curF.Sites = append(curF.Sites, c)
					continue
				}
				site, ex, ok := strings.Cut(rest, " assert ")
				if !ok {
					return fmt.Errorf("%s:%d: at <site> assert <expr>", path, it.line)
				}
				c, err := mkClause("site", strings.TrimSpace(ex), it.line)
				if err != nil {
					return err
				}
				c.Kind = "site:" + strings.TrimSpace(site)
				curF.Sites = append(curF.Sites, c)
				continue
			}
			c, err := mkClause(kw, rest, it.line)
			if err != nil {
				return err
			}
			switch {
			case curL != nil && kw == "invariant":
				curL.Invariants = append(curL.Invariants, c)
			case curL != nil && kw == "decreases":
				curL.Decr = c
			case curL != nil && kw == "use":
				curL.Uses = append(curL.Uses, c)
			case curF != nil && kw == "use":
				curF.Uses = append(curF.Uses, c)
			case curF != nil && kw == "requires":
				curF.Requires = append(curF.Requires, c)
			case curF != nil && kw == "ensures":
				curF.Ensures = append(curF.Ensures, c)
			case curF != nil && kw == "panics_if":
				curF.PanicsIf = append(curF.PanicsIf, c)
			case curF != nil && kw == "assume":
				curF.Assume = append(curF.Assume, c)
			case curF != nil && kw == "assigns":
				curF.Assigns = append(curF.Assigns, c)
			case curF != nil && kw == "decreases":
				curF.Decr = c
			default:
				return fmt.Errorf("%s:%d: clause %s not valid here", path, it.line, kw)
			}
		}
	}
	return nil
}

func qualify(pkg, key string) string {
	if pkg == "" {
		return key
	}
	return pkg + "." + key
}

var specSigRe = regexp.MustCompile(`^([A-Za-z_][A-Za-z0-9_]*)\s*\(([^)]*)\)\s*(.*)$`)

func parseSpecFunc(kw, rest string) (*SpecFunc, error) {
	sig, body, hasBody := strings.Cut(rest, ":=")
	m := splitSpecSig(strings.TrimSpace(sig))
	if m == nil {
		return nil, fmt.Errorf("bad %s signature %q", kw, sig)
	}
	sf := &SpecFunc{Name: m[1], Ret: strings.TrimSpace(m[3])}
	if strings.TrimSpace(m[2]) != "" {
		// params: "a, b T, c U" Go style
		parts := splitTopCommas(m[2])
		var pend []string
		for _, p := range parts {
			p = strings.TrimSpace(p)
			nm, ty, ok := strings.Cut(p, " ")
			if !ok {
				pend = append(pend, nm)
				continue
			}
			for _, q := range pend {
				sf.Params = append(sf.Params, SpecParam{q, strings.TrimSpace(ty)})
			}
			pend = nil
			sf.Params = append(sf.Params, SpecParam{nm, strings.TrimSpace(ty)})
		}
		if len(pend) > 0 {
			return nil, fmt.Errorf("untyped parameters in %q", sig)
		}
	}
	if kw == "pred" && sf.Ret == "" {
		sf.Ret = "bool"
	}
	if sf.Ret == "" {
		return nil, fmt.Errorf("%s %s needs a result type", kw, sf.Name)
	}
	if kw == "ufunc" {
		if hasBody {
			return nil, fmt.Errorf("ufunc %s must not have a body", sf.Name)
		}
		return sf, nil
	}
	if !hasBody {
		return nil, fmt.Errorf("%s %s needs a body", kw, sf.Name)
	}
	e, err := ParseCExpr(strings.TrimSpace(body))
	if err != nil {
		return nil, err
	}
	sf.Body = e
	sf.Math = kw == "mfunc"
	return sf, nil
}
