package vc

import (
	"fmt"
	"go/token"
	"go/types"
	"math/big"
	"regexp"
	"strings"
)

// Val is a symbolic value: an SMT term with its SMT sort and Go type.
type Val struct {
	E     string // SMT term
	S     string // SMT sort
	T     types.Type
	P     *Ptr  // interior / cell pointer kept at meta level (E == "")
	Tuple []Val // multi-value call result
	Fn    *FnVal
}

// FnVal is a statically known function value (closure or function constant).
type FnVal struct {
	Fn       any // *ssa.Function
	Bindings []Val
}

type rootKind int

const (
	rCell rootKind = iota
	rGlobal
	rField
	rElem
)

type pathElem struct {
	Field int    // struct field index, or -1
	Index string // array index term when Field == -1
	T     types.Type // type of the container (struct or array)
}

// Ptr is a pointer that is not (yet) a plain heap reference.
type Ptr struct {
	Root   rootKind
	Cell   any    // *ssa.Alloc
	Glob   any    // *ssa.Global
	Ref    string // rField: object ref; rElem: backing array ref
	Struct types.Type
	Field  int
	Idx    string // rElem absolute index
	RootT  types.Type // type of the value stored at the root
	Path   []pathElem
	Elem   types.Type // pointee type
}

const (
	sInt   = "Int"
	sBool  = "Bool"
	sStr   = "Str"
	sSlice = "Slice"
	sIface = "Iface"
)

// Emitter accumulates the passive-form program as SMT-LIB lines.
type Emitter struct {
	pre     []string // global declarations (sorts, datatypes, functions, axioms) — always included
	lines   []string
	declared map[string]bool
	n       int
	Obls    []*Obligation
	structs map[string]*structInfo
	strConsts map[string]string
	typeTags map[string]int
	tagNames []string
	tagTypes map[int]types.Type    // Go type of a tag (tags made from a name only have none)
	ifaces   map[string]types.Type // interface types whose impl_ predicate is in use
	Assumed map[string]bool // trusted contracts / axioms used
	usesQuant bool
	hsorts  map[string]string
}

type structInfo struct {
	Sort   string
	Fields []string // selector names
	FSorts []string
	T      *types.Struct
}

type Obligation struct {
	Name   string
	Kind   string
	Func   string
	Pos    token.Position
	Detail string
	Prefix int // number of emitter lines visible
	PC     string
	Goal   string
	ExpectSat bool // vacuity guard: the prefix (+PC) must be satisfiable
	Extra  []string // extra assertions (known-finding exclusions)
	Result *SolveResult
	KnownFinding string
	ReplayNote string
}

func NewEmitter() *Emitter {
	em := &Emitter{declared: map[string]bool{}, structs: map[string]*structInfo{}, strConsts: map[string]string{}, typeTags: map[string]int{}, Assumed: map[string]bool{}}
	em.pre = append(em.pre,
		"(declare-sort Str 0)",
		"(declare-fun slen (Str) Int)",
		"(declare-fun sat (Str Int) Int)",
		"(declare-datatypes ((Slice 0)) (((mk_slice (s_arr Int) (s_off Int) (s_len Int) (s_cap Int)))))",
		"(declare-datatypes ((Iface 0)) (((mk_iface (i_tag Int) (i_val Int)))))",
		"(assert (forall ((s Str)) (! (>= (slen s) 0) :pattern ((slen s)))))",
		"(assert (forall ((s Str) (i Int)) (! (and (<= 0 (sat s i)) (<= (sat s i) 255)) :pattern ((sat s i)))))",
		"(declare-fun box_Str (Str) Int)",
		"(declare-fun unbox_Str (Int) Str)",
		"(assert (forall ((s Str)) (! (= (unbox_Str (box_Str s)) s) :pattern ((box_Str s)))))",
		"(declare-fun box_Slice (Slice) Int)",
		"(declare-fun unbox_Slice (Int) Slice)",
		"(assert (forall ((s Slice)) (! (= (unbox_Slice (box_Slice s)) s) :pattern ((box_Slice s)))))",
		"(declare-const str_empty Str)",
		"(assert (= (slen str_empty) 0))",
	)
	em.strConsts[""] = "str_empty"
	return em
}

func (em *Emitter) fresh(base string) string {
	em.n++
	return fmt.Sprintf("%s!%d", sanitize(base), em.n)
}

var identRe = regexp.MustCompile(`[^A-Za-z0-9_.$]`)

func sanitize(s string) string {
	s = strings.ReplaceAll(s, "*", "p_")
	s = strings.ReplaceAll(s, "[]", "sl_")
	s = strings.ReplaceAll(s, "/", "_")
	return identRe.ReplaceAllString(s, "_")
}

func (em *Emitter) emit(l string) { em.lines = append(em.lines, l) }

// declare a fresh constant of sort s, returns its name.
func (em *Emitter) newConst(base, sort string) string {
	n := em.fresh(base)
	em.emit(fmt.Sprintf("(declare-const %s %s)", n, sort))
	return n
}

// define introduces a name for a term (declare + assert equality), to keep terms small.
func (em *Emitter) define(base, sort, term string) string {
	if len(term) < 40 && !strings.ContainsAny(term, " ") {
		return term
	}
	n := em.newConst(base, sort)
	em.emit(fmt.Sprintf("(assert (= %s %s))", n, term))
	return n
}

func (em *Emitter) assume(pc, f string) {
	if f == "true" {
		return
	}
	if pc == "" || pc == "true" {
		em.emit(fmt.Sprintf("(assert %s)", f))
	} else {
		em.emit(fmt.Sprintf("(assert (=> %s %s))", pc, f))
	}
}

func (em *Emitter) global(l string) {
	if !em.declared[l] {
		em.declared[l] = true
		em.pre = append(em.pre, l)
	}
}

// initial heap / global constant, declared once.
func (em *Emitter) globalConst(name, sort string) string {
	k := "const:" + name
	if !em.declared[k] {
		em.declared[k] = true
		em.pre = append(em.pre, fmt.Sprintf("(declare-const %s %s)", name, sort))
	}
	return name
}

func (em *Emitter) typeTag(t types.Type) int {
	// identical types must get one tag however they are spelled (any vs interface{}, aliases)
	k := strings.ReplaceAll(types.TypeString(deepUnalias(t), nil), "interface{}", "any")
	if id, ok := em.typeTags[k]; ok {
		return id
	}
	id := len(em.typeTags) + 1
	em.typeTags[k] = id
	em.tagNames = append(em.tagNames, k)
	if em.tagTypes == nil {
		em.tagTypes = map[int]types.Type{}
	}
	em.tagTypes[id] = t
	for _, it := range em.ifaces {
		em.implFact(it, id, t)
	}
	return id
}

func (em *Emitter) strConst(s string) string {
	if n, ok := em.strConsts[s]; ok {
		return n
	}
	n := fmt.Sprintf("strc_%d", len(em.strConsts))
	em.strConsts[s] = n
	em.pre = append(em.pre, fmt.Sprintf("(declare-const %s Str) ; %q", n, s))
	em.pre = append(em.pre, fmt.Sprintf("(assert (= (slen %s) %d))", n, len(s)))
	if len(s) <= 64 {
		for i := 0; i < len(s); i++ {
			em.pre = append(em.pre, fmt.Sprintf("(assert (= (sat %s %d) %d))", n, i, s[i]))
		}
	}
	return n
}

// ---- sorts ----

func typeName(t types.Type) string {
	return sanitize(types.TypeString(t, pkgQualifier))
}

// pkgQualifier names a package in SMT identifiers (heaps, struct sorts, impl_ predicates). Packages of this
// repository that share their name with a standard-library package (ast, token, scanner, ...) get their parent
// directory as a prefix: go/ast.CallExpr and xgo/ast.CallExpr are different structs and must not share a heap.
func pkgQualifier(p *types.Package) string {
	path := p.Path()
	if i := strings.LastIndex(path, "/"); i > 0 && strings.Contains(path, ".") {
		parent := path[:i]
		if j := strings.LastIndex(parent, "/"); j >= 0 {
			parent = parent[j+1:]
		}
		switch p.Name() {
		case "ast", "token", "scanner", "parser", "format", "printer", "types", "errors", "build", "doc":
			return parent + "_" + p.Name()
		}
	}
	return p.Name()
}

func (em *Emitter) sortOf(t types.Type) string {
	switch u := t.Underlying().(type) {
	case *types.Basic:
		switch {
		case u.Info()&types.IsBoolean != 0:
			return sBool
		case u.Info()&types.IsString != 0:
			return sStr
		}
		return sInt
	case *types.Pointer, *types.Map, *types.Chan, *types.Signature:
		return sInt
	case *types.Slice:
		return sSlice
	case *types.Interface:
		return sIface
	case *types.Array:
		return "(Array Int " + em.sortOf(u.Elem()) + ")"
	case *types.Struct:
		return em.structSort(t).Sort
	case *types.Tuple:
		return "Tuple"
	}
	return sInt
}

func (em *Emitter) structSort(t types.Type) *structInfo {
	t = types.Unalias(t) // an alias of a named struct is that struct
	st := t.Underlying().(*types.Struct)
	key := typeName(t)
	if _, named := t.(*types.Named); !named {
		key = "anon_" + sanitize(st.String())
	}
	if si, ok := em.structs[key]; ok {
		return si
	}
	si := &structInfo{Sort: "S_" + key, T: st}
	em.structs[key] = si
	var fs []string
	for i := 0; i < st.NumFields(); i++ {
		fn := fmt.Sprintf("f_%s_%s", key, st.Field(i).Name())
		if st.Field(i).Name() == "_" {
			fn = fmt.Sprintf("f_%s__%d", key, i)
		}
		fsort := em.sortOf(st.Field(i).Type())
		si.Fields = append(si.Fields, fn)
		si.FSorts = append(si.FSorts, fsort)
		fs = append(fs, fmt.Sprintf("(%s %s)", fn, fsort))
	}
	if len(fs) == 0 {
		em.pre = append(em.pre, fmt.Sprintf("(declare-datatypes ((%s 0)) (((mk_%s))))", si.Sort, si.Sort))
	} else {
		em.pre = append(em.pre, fmt.Sprintf("(declare-datatypes ((%s 0)) (((mk_%s %s))))", si.Sort, si.Sort, strings.Join(fs, " ")))
	}
	em.pre = append(em.pre,
		fmt.Sprintf("(declare-fun box_%s (%s) Int)", si.Sort, si.Sort),
		fmt.Sprintf("(declare-fun unbox_%s (Int) %s)", si.Sort, si.Sort),
		fmt.Sprintf("(assert (forall ((s %s)) (! (= (unbox_%s (box_%s s)) s) :pattern ((box_%s s)))))", si.Sort, si.Sort, si.Sort, si.Sort))
	return si
}

func (em *Emitter) zero(t types.Type) Val {
	s := em.sortOf(t)
	v := Val{S: s, T: t}
	switch {
	case s == sInt:
		v.E = "0"
	case s == sBool:
		v.E = "false"
	case s == sStr:
		v.E = "str_empty"
	case s == sSlice:
		v.E = "(mk_slice 0 0 0 0)"
	case s == sIface:
		v.E = "(mk_iface 0 0)"
	case strings.HasPrefix(s, "(Array"):
		a := t.Underlying().(*types.Array)
		v.E = fmt.Sprintf("((as const %s) %s)", s, em.zero(a.Elem()).E)
	case strings.HasPrefix(s, "S_"):
		si := em.structSort(t)
		if len(si.Fields) == 0 {
			v.E = "mk_" + si.Sort
		} else {
			var parts []string
			for i := 0; i < si.T.NumFields(); i++ {
				parts = append(parts, em.zero(si.T.Field(i).Type()).E)
			}
			v.E = fmt.Sprintf("(mk_%s %s)", si.Sort, strings.Join(parts, " "))
		}
	default:
		v.E = "0"
	}
	return v
}

// integer range of a Go type (nil, nil if not integer)
func intRange(t types.Type) (lo, hi *big.Int) {
	b, ok := t.Underlying().(*types.Basic)
	if !ok || b.Info()&types.IsInteger == 0 {
		return nil, nil
	}
	pow := func(n uint) *big.Int { return new(big.Int).Lsh(big.NewInt(1), n) }
	switch b.Kind() {
	case types.Int8:
		return new(big.Int).Neg(pow(7)), new(big.Int).Sub(pow(7), big.NewInt(1))
	case types.Int16:
		return new(big.Int).Neg(pow(15)), new(big.Int).Sub(pow(15), big.NewInt(1))
	case types.Int32:
		return new(big.Int).Neg(pow(31)), new(big.Int).Sub(pow(31), big.NewInt(1))
	case types.Int, types.Int64, types.UntypedInt, types.UntypedRune:
		return new(big.Int).Neg(pow(63)), new(big.Int).Sub(pow(63), big.NewInt(1))
	case types.Uint8:
		return big.NewInt(0), big.NewInt(255)
	case types.Uint16:
		return big.NewInt(0), big.NewInt(65535)
	case types.Uint32:
		return big.NewInt(0), new(big.Int).Sub(pow(32), big.NewInt(1))
	case types.Uint, types.Uint64, types.Uintptr:
		return big.NewInt(0), new(big.Int).Sub(pow(64), big.NewInt(1))
	}
	return nil, nil
}

func smtInt(n *big.Int) string {
	if n.Sign() < 0 {
		return "(- " + new(big.Int).Neg(n).String() + ")"
	}
	return n.String()
}

// wf returns the well-formedness (type invariant) formula of a value, or "".
func (em *Emitter) wf(v Val) string {
	if v.T == nil {
		return ""
	}
	switch v.S {
	case sInt:
		if lo, hi := intRange(v.T); lo != nil {
			return fmt.Sprintf("(and (<= %s %s) (<= %s %s))", smtInt(lo), v.E, v.E, smtInt(hi))
		}
		switch v.T.Underlying().(type) {
		case *types.Pointer, *types.Map, *types.Chan, *types.Signature:
			return fmt.Sprintf("(<= 0 %s)", v.E)
		}
	case sSlice:
		return fmt.Sprintf("(and (<= 0 (s_arr %s)) (<= 0 (s_off %s)) (<= 0 (s_len %s)) (<= (s_len %s) (s_cap %s)) (=> (= (s_arr %s) 0) (= (s_cap %s) 0)))", v.E, v.E, v.E, v.E, v.E, v.E, v.E)
	case sIface:
		return fmt.Sprintf("(<= 0 (i_tag %s))", v.E)
	}
	if strings.HasPrefix(v.S, "S_") {
		si := em.structSort(v.T)
		var parts []string
		for i, f := range si.Fields {
			fv := Val{E: fmt.Sprintf("(%s %s)", f, v.E), S: si.FSorts[i], T: si.T.Field(i).Type()}
			if w := em.wf(fv); w != "" {
				parts = append(parts, w)
			}
		}
		if len(parts) > 0 {
			return "(and " + strings.Join(parts, " ") + ")"
		}
	}
	return ""
}

func and(parts ...string) string {
	var ps []string
	for _, p := range parts {
		if p == "" || p == "true" {
			continue
		}
		if p == "false" {
			return "false"
		}
		ps = append(ps, p)
	}
	switch len(ps) {
	case 0:
		return "true"
	case 1:
		return ps[0]
	}
	return "(and " + strings.Join(ps, " ") + ")"
}

func or(parts ...string) string {
	var ps []string
	for _, p := range parts {
		if p == "" || p == "false" {
			continue
		}
		if p == "true" {
			return "true"
		}
		ps = append(ps, p)
	}
	switch len(ps) {
	case 0:
		return "false"
	case 1:
		return ps[0]
	}
	return "(or " + strings.Join(ps, " ") + ")"
}

func not(p string) string {
	switch p {
	case "true":
		return "false"
	case "false":
		return "true"
	}
	if strings.HasPrefix(p, "(not ") && strings.HasSuffix(p, ")") && balanced(p[5:len(p)-1]) {
		return p[5 : len(p)-1]
	}
	return "(not " + p + ")"
}

func balanced(s string) bool {
	d := 0
	for _, c := range s {
		if c == '(' {
			d++
		} else if c == ')' {
			d--
			if d < 0 {
				return false
			}
		}
	}
	return d == 0
}

func implies(a, b string) string {
	if a == "true" || a == "" {
		return b
	}
	if b == "true" {
		return "true"
	}
	return "(=> " + a + " " + b + ")"
}

func ite(c, a, b string) string {
	if a == b {
		return a
	}
	if c == "true" {
		return a
	}
	if c == "false" {
		return b
	}
	return "(ite " + c + " " + a + " " + b + ")"
}
