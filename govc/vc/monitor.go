package vc

import (
	"fmt"
	"go/token"
	"go/types"
	"strings"

	"golang.org/x/tools/go/ssa"
)

// Monitor: a struct whose mutex field protects the contents of some of its map fields and some ghost variables,
// with a monitor invariant (Hoare 1974): the invariant may be assumed whenever the lock is acquired (Lock, return
// from Cond.Wait) — at which points everything protected is havocked, since other threads ran — and must be proved
// whenever it is released (Unlock, Cond.Wait). Every access to a protected field needs the lock (or a fresh object).
//
//	monitor <Struct> mutex=<field> cond=<field> held=<ghost array[*Struct]bool> protects=<f1,f2> ghosts=<g1,g2> inv=<pred(p *Struct)>
type Monitor struct {
	Pkg, Struct, Mutex, Cond, Held, Inv string
	Protects, Ghosts                   []string
	File                               string
	Line                               int
	inv                                CExpr
	scanned                            bool
}

func parseMonitor(rest string) (*Monitor, error) {
	fs := strings.Fields(rest)
	if len(fs) == 0 {
		return nil, fmt.Errorf("monitor <Struct> key=value...")
	}
	m := &Monitor{Struct: fs[0]}
	for _, f := range fs[1:] {
		k, v, ok := strings.Cut(f, "=")
		if !ok {
			return nil, fmt.Errorf("monitor: bad item %q", f)
		}
		switch k {
		case "mutex":
			m.Mutex = v
		case "cond":
			m.Cond = v
		case "held":
			m.Held = v
		case "inv":
			m.Inv = v
		case "protects":
			m.Protects = strings.Split(v, ",")
		case "ghosts":
			m.Ghosts = strings.Split(v, ",")
		default:
			return nil, fmt.Errorf("monitor: unknown key %q", k)
		}
	}
	if m.Mutex == "" || m.Held == "" || m.Inv == "" {
		return nil, fmt.Errorf("monitor needs mutex=, held= and inv=")
	}
	e, err := ParseCExpr(m.Inv + "(p)")
	if err != nil {
		return nil, err
	}
	m.inv = e
	return m, nil
}

func (eng *Engine) monitorOf(t types.Type) *Monitor {
	n, ok := types.Unalias(t).(*types.Named)
	if !ok || n.Obj().Pkg() == nil {
		return nil
	}
	for _, m := range eng.CS.Monitors {
		if m.Pkg == n.Obj().Pkg().Path() && m.Struct == n.Obj().Name() {
			return m
		}
	}
	return nil
}

func (m *Monitor) protects(field string) bool {
	for _, f := range m.Protects {
		if f == field {
			return true
		}
	}
	return false
}

// scanMonitorStores: the protected fields themselves (the map references) are only ever stored in an object the
// storing function has just allocated; so a thread holding a reference to the object sees a stable field value and
// only the map contents need havocking.
func (eng *Engine) scanMonitorStores(m *Monitor) {
	if m.scanned {
		return
	}
	m.scanned = true
	var sp *ssa.Package
	for _, p := range eng.Prog.AllPackages() {
		if p.Pkg.Path() == m.Pkg {
			sp = p
		}
	}
	if sp == nil {
		return
	}
	var scan func(f *ssa.Function)
	scan = func(f *ssa.Function) {
		for _, b := range f.Blocks {
			for _, in := range b.Instrs {
				st, ok := in.(*ssa.Store)
				if !ok {
					continue
				}
				fa, ok := st.Addr.(*ssa.FieldAddr)
				if !ok || eng.monitorOf(deref(fa.X.Type())) != m {
					continue
				}
				name := deref(fa.X.Type()).Underlying().(*types.Struct).Field(fa.Field).Name()
				if !m.protects(name) {
					continue
				}
				if a, ok := fa.X.(*ssa.Alloc); !ok || !a.Heap {
					eng.errorf("monitor %s: field %s is stored in %s outside the allocation of the object", m.Struct, name, f)
				}
			}
		}
		for _, an := range f.AnonFuncs {
			scan(an)
		}
	}
	for _, mem := range sp.Members {
		if f, ok := mem.(*ssa.Function); ok {
			scan(f)
		}
		if t, ok := mem.(*ssa.Type); ok {
			for _, recv := range []types.Type{t.Type(), types.NewPointer(t.Type())} {
				ms := eng.Prog.MethodSets.MethodSet(recv)
				for i := 0; i < ms.Len(); i++ {
					if f := eng.Prog.MethodValue(ms.At(i)); f != nil && f.Pkg == sp {
						scan(f)
					}
				}
			}
		}
	}
}

func (ex *Exec) monitorHeld(m *Monitor, obj string) (Val, string) {
	g, ok := ex.curSt.ghost[m.Held]
	if !ok {
		ex.unsup("monitor %s: ghost %s is not declared", m.Struct, m.Held)
	}
	return g, fmt.Sprintf("(select %s %s)", g.E, obj)
}

func (ex *Exec) monitorGhostListed(name string) {
	r := ex.root()
	if r.assignsAll {
		return
	}
	for _, t := range r.assignsTargets {
		if t.heap == "ghost:"+name {
			return
		}
	}
	ex.unsup("monitor: ghost %s changes here but is not named in the assigns clause of %s", name, r.key)
}

func (ex *Exec) monitorSetHeld(m *Monitor, obj, val string) {
	g, _ := ex.monitorHeld(m, obj)
	ex.monitorGhostListed(m.Held)
	g.E = ex.em.define("ghost_"+m.Held, g.S, storeT(g.E, obj, val))
	ex.curSt.ghost[m.Held] = g
}

func (ex *Exec) monitorEnv(m *Monitor, structT types.Type, obj string, pos token.Pos) *Env {
	r := ex.root()
	env := &Env{ex: ex, st: ex.curSt, old: r.entrySt, vars: map[string]Val{}, fn: nil, pkg: ex.eng.typesPkgOr(m.Pkg, ex.fn.Pkg.Pkg), at: pos, where: "monitor invariant of " + m.Struct}
	env.vars["p"] = Val{E: obj, S: sInt, T: types.NewPointer(structT)}
	return env
}

// monitorHavoc: other threads ran: the contents of the protected maps and the protected ghosts are arbitrary
func (ex *Exec) monitorHavoc(m *Monitor, structT types.Type, obj string, pos token.Pos) {
	em := ex.em
	st := ex.curSt
	sT := structT.Underlying().(*types.Struct)
	for i := 0; i < sT.NumFields(); i++ {
		f := sT.Field(i)
		if !m.protects(f.Name()) {
			continue
		}
		mt, ok := f.Type().Underlying().(*types.Map)
		if !ok {
			ex.unsup("monitor %s: protected field %s is not a map", m.Struct, f.Name())
		}
		hn := fieldHeapName(structT, i)
		ref := selectT(em.heapGet(st, hn, "(Array Int Int)"), obj)
		dn, ds, vn, vs := mapHeaps(em, mt)
		ks, es := em.sortOf(mt.Key()), em.sortOf(mt.Elem())
		for _, h := range [][3]string{{dn, ds, "(Array " + ks + " Bool)"}, {vn, vs, "(Array " + ks + " " + es + ")"}} {
			if g, ok := ex.frameGoal(h[0], ref); ok {
				ex.obligeLabel("frame", ex.curPC, g, pos, "monitor havoc of "+f.Name())
			}
			row := em.newConst("mon_"+f.Name(), h[2])
			em.heapSet(st, h[0], h[1], storeT(em.heapGet(st, h[0], h[1]), ref, row))
		}
	}
	for _, gname := range m.Ghosts {
		g, ok := st.ghost[gname]
		if !ok {
			ex.unsup("monitor %s: ghost %s is not declared", m.Struct, gname)
		}
		ex.monitorGhostListed(gname)
		g.E = em.newConst("ghost_"+gname, g.S)
		if w := em.wf(g); w != "" && g.S == em.sortOf(g.T) {
			em.emit("(assert " + w + ")")
		}
		st.ghost[gname] = g
	}
}

func (ex *Exec) monitorCheckInv(m *Monitor, structT types.Type, obj string, pos token.Pos, at string) {
	env := ex.monitorEnv(m, structT, obj, pos)
	parts := ex.eng.splitConjDeep(m.inv, m.Pkg, 0)
	for i, pe := range parts {
		l := "inv@" + at
		if len(parts) > 1 {
			l = fmt.Sprintf("inv.%d@%s", i+1, at)
		}
		ex.obligeLabel("monitor", ex.curPC, env.evalBool(pe), pos, l)
	}
}

func (ex *Exec) monitorAssumeInv(m *Monitor, structT types.Type, obj string, pos token.Pos) {
	env := ex.monitorEnv(m, structT, obj, pos)
	ex.em.assume(ex.curPC, env.evalBool(m.inv))
	ex.em.Assumed["monitor rule for "+m.Pkg+"."+m.Struct+": the invariant "+m.Inv+" holds whenever the mutex is acquired (it is proved at every Unlock and Cond.Wait of the functions under contract; sync.Mutex gives mutual exclusion; Cond.L is the monitor's mutex)"] = true
}

// monitorCall handles Lock/Unlock/Wait/Broadcast/Signal on the mutex and condition variable of a monitor object.
func (ex *Exec) monitorCall(key string, args []Val, pos token.Pos) bool {
	var op string
	switch key {
	case "sync.(*Mutex).Lock":
		op = "lock"
	case "sync.(*Mutex).Unlock":
		op = "unlock"
	case "sync.(*Cond).Wait":
		op = "wait"
	case "sync.(*Cond).Broadcast", "sync.(*Cond).Signal":
		op = "notify"
	default:
		return false
	}
	if len(args) == 0 || args[0].P == nil || args[0].P.Root != rField || len(args[0].P.Path) != 0 {
		return false
	}
	p := args[0].P
	m := ex.eng.monitorOf(p.Struct)
	if m == nil {
		return false
	}
	ex.eng.scanMonitorStores(m)
	fname := p.Struct.Underlying().(*types.Struct).Field(p.Field).Name()
	obj := p.Ref
	switch {
	case (op == "lock" || op == "unlock") && fname == m.Mutex:
	case (op == "wait" || op == "notify") && fname == m.Cond:
	default:
		return false
	}
	_, held := ex.monitorHeld(m, obj)
	switch op {
	case "lock":
		ex.obligeLabel("monitor", ex.curPC, not(held), pos, "lock:not-already-held")
		ex.monitorHavoc(m, p.Struct, obj, pos)
		ex.monitorAssumeInv(m, p.Struct, obj, pos)
		ex.monitorSetHeld(m, obj, "true")
	case "unlock":
		ex.obligeLabel("monitor", ex.curPC, held, pos, "unlock:held")
		ex.monitorCheckInv(m, p.Struct, obj, pos, "unlock")
		ex.monitorSetHeld(m, obj, "false")
	case "wait":
		ex.obligeLabel("monitor", ex.curPC, held, pos, "wait:held")
		ex.monitorCheckInv(m, p.Struct, obj, pos, "wait")
		ex.monitorHavoc(m, p.Struct, obj, pos)
		ex.monitorAssumeInv(m, p.Struct, obj, pos)
	case "notify":
		// no effect on the sequential state; site hooks may count it
	}
	return true
}

// monitorAccess: a protected field is only touched with the lock held, or in an object allocated by this call
func (ex *Exec) monitorAccess(structT types.Type, field int, obj string, pos token.Pos) {
	m := ex.eng.monitorOf(structT)
	if m == nil {
		return
	}
	name := structT.Underlying().(*types.Struct).Field(field).Name()
	if !m.protects(name) {
		return
	}
	_, held := ex.monitorHeld(m, obj)
	goal := held
	if r := ex.root(); r.top0 != "" {
		goal = or(held, fmt.Sprintf("(>= %s %s)", obj, r.top0))
	}
	ex.obligeLabel("monitor", ex.curPC, goal, pos, "access-held:"+name)
}

// monitorCallHeaps: the heaps a Lock/Wait on a monitor object may change (for loop havoc sets)
func (ex *Exec) monitorCallHeaps(c *ssa.CallCommon) ([]string, bool) {
	callee := c.StaticCallee()
	if callee == nil || len(c.Args) == 0 {
		return nil, false
	}
	switch funcKey(callee) {
	case "sync.(*Mutex).Lock", "sync.(*Mutex).Unlock", "sync.(*Cond).Wait", "sync.(*Cond).Broadcast", "sync.(*Cond).Signal":
	default:
		return nil, false
	}
	fa, ok := c.Args[0].(*ssa.FieldAddr)
	if !ok {
		return nil, false
	}
	structT := deref(fa.X.Type())
	m := ex.eng.monitorOf(structT)
	if m == nil {
		return nil, false
	}
	var hs []string
	sT := structT.Underlying().(*types.Struct)
	for i := 0; i < sT.NumFields(); i++ {
		if mt, ok := sT.Field(i).Type().Underlying().(*types.Map); ok && m.protects(sT.Field(i).Name()) {
			dn, vn := ex.regMap(mt)
			hs = append(hs, dn, vn)
		}
	}
	return hs, true
}
