package vc

import (
	"fmt"
	"go/token"
	"go/types"
	"strings"

	"golang.org/x/tools/go/ssa"
)

type assignTarget struct {
	heap string // heap name
	ref  string // object / array ref term ("" = whole heap / global)
	cond string // SMT condition (over the entry state) under which the target may be modified; "" = always
}

// funcKey returns the contract key of an SSA function: "pkgpath.Name" or "pkgpath.(*T).Name" / "pkgpath.(T).Name".
func funcKey(f *ssa.Function) string {
	if f.Signature.Recv() != nil && f.Pkg == nil && f.Object() != nil {
		// wrapper / instantiated; fall through to generic handling
	}
	pkg := ""
	if f.Pkg != nil {
		pkg = f.Pkg.Pkg.Path()
	} else if f.Object() != nil && f.Object().Pkg() != nil {
		pkg = f.Object().Pkg().Path()
	}
	if recv := f.Signature.Recv(); recv != nil {
		rt := recv.Type()
		star := ""
		if p, ok := rt.(*types.Pointer); ok {
			rt = p.Elem()
			star = "*"
		}
		tn := ""
		if n, ok := types.Unalias(rt).(*types.Named); ok {
			tn = n.Obj().Name()
		} else {
			tn = rt.String()
		}
		return fmt.Sprintf("%s.(%s%s).%s", pkg, star, tn, f.Name())
	}
	if f.Parent() != nil {
		return funcKey(f.Parent()) + "$" + strings.TrimPrefix(f.Name(), f.Parent().Name()+"$")
	}
	return pkg + "." + f.Name()
}

func ifaceMethodKey(recv types.Type, m *types.Func) string {
	rt := types.Unalias(recv)
	if n, ok := rt.(*types.Named); ok && n.Obj().Pkg() != nil {
		return fmt.Sprintf("%s.%s.%s", n.Obj().Pkg().Path(), n.Obj().Name(), m.Name())
	}
	if m.Pkg() != nil {
		return fmt.Sprintf("%s.%s.%s", m.Pkg().Path(), "interface", m.Name())
	}
	return "builtin.error." + m.Name()
}

func (ex *Exec) call(in ssa.Instruction, c *ssa.CallCommon) Val {
	pos := in.Pos()
	var rt types.Type
	if v, ok := in.(ssa.Value); ok {
		rt = v.Type()
	} else {
		rt = c.Signature().Results()
	}
	if c.IsInvoke() {
		recv := ex.val(c.Value)
		ex.oblige("nil", ex.curPC, fmt.Sprintf("(not (= (i_tag %s) 0))", recv.E), pos, "invoke on nil interface")
		key, fc := ex.eng.ifaceContract(c.Value.Type(), c.Method)
		if r := ex.root(); r.fc != nil && r.usesScratch {
			// the unknown implementation could be (or call) a function that sets the same scratch ghost
			ex.eng.errorf("%s: %s uses a scratch ghost and calls an interface method (%s)", ex.position(pos), r.key, key)
		}
		if fc == nil {
			ex.eng.missing(key, ex.position(pos))
			return ex.havocResult(rt)
		}
		args := []Val{recv}
		for _, a := range c.Args {
			args = append(args, ex.val(a))
		}
		names := []string{"this"}
		sig := c.Method.Type().(*types.Signature)
		for i := 0; i < sig.Params().Len(); i++ {
			n := sig.Params().At(i).Name()
			if n == "" || n == "_" {
				n = fmt.Sprintf("a%d", i)
			}
			names = append(names, n)
		}
		ex.measureSt = ex.curSt
		r := ex.applyContract(fc, key, names, args, sig, rt, pos, c.Method.Pkg())
		ex.checkCallMeasure(fc, key, names, args, pos, c.Method.Pkg())
		return r
	}
	if b, ok := c.Value.(*ssa.Builtin); ok {
		return ex.builtin(b, c, rt, pos)
	}
	var callee *ssa.Function
	var bindings []Val
	if f := c.StaticCallee(); f != nil {
		callee = f
		if mc, ok := c.Value.(*ssa.MakeClosure); ok {
			for _, b := range mc.Bindings {
				bindings = append(bindings, ex.val(b))
			}
		}
	} else {
		fv := ex.val(c.Value)
		if fv.Fn != nil {
			callee = fv.Fn.Fn.(*ssa.Function)
			bindings = fv.Fn.Bindings
		}
	}
	var args []Val
	for _, a := range c.Args {
		args = append(args, ex.val(a))
	}
	if callee == nil {
		// dynamic call through a function value: only allowed if declared as a pure parameter
		fv := ex.val(c.Value)
		return ex.dynamicCall(fv, c, args, rt, pos)
	}
	if callee.Name() == "init" && callee.Synthetic != "" && callee.Signature.Recv() == nil {
		// initialiser of an imported package: touches only that package's globals
		return Val{T: rt}
	}
	key := funcKey(callee)
	if callee.Synthetic != "" && strings.Contains(callee.Synthetic, "instance") && callee.Origin() != nil {
		key = funcKey(callee.Origin())
	}
	if ex.monitorCall(key, args, pos) {
		return Val{T: rt}
	}
	if fc := ex.eng.CS.Funcs[key]; fc != nil {
		var names []string
		for _, p := range callee.Params {
			names = append(names, p.Name())
		}
		var pk *types.Package
		if callee.Pkg != nil {
			pk = callee.Pkg.Pkg
		} else if callee.Object() != nil {
			pk = callee.Object().Pkg()
		}
		copyOut := ex.interiorArgs(key, args, pos)
		ex.measureSt = ex.curSt
		r := ex.applyContract(fc, key, names, args, callee.Signature, rt, pos, pk)
		if copyOut != nil {
			copyOut()
		}
		if ex.eng.DeepVacuity && !fc.NoReturn && ex.curPC != "false" && ex == ex.root() && !blockPanicsEng(ex.eng, in) {
			// a callee postcondition that cannot hold at this call site would make everything after it vacuous
			ex.vacuity("call "+callee.Name()+" returns", ex.curPC, pos)
		}
		// recursion / termination measure
		ex.checkCallMeasure(fc, key, names, args, pos, pk)
		return r
	}
	// no contract: inline if possible
	if callee.Blocks != nil && ex.eng.inScope(callee) {
		if ex.depth >= 6 {
			ex.unsup("inline depth exceeded at %s", key)
		}
		for p := ex; p != nil; p = p.parent {
			if p.fn == callee {
				ex.eng.missing(key+" (recursive, needs a contract)", ex.position(pos))
				return ex.havocResult(rt)
			}
		}
		return ex.inline(callee, args, bindings, rt, pos)
	}
	ex.eng.missing(key, ex.position(pos))
	return ex.havocResult(rt)
}

func (ex *Exec) dynamicCall(fv Val, c *ssa.CallCommon, args []Val, rt types.Type, pos token.Pos) Val {
	// uninterpreted application: result is a function of (function value, arguments); allowed only when the
	// verified function's contract declares option pure_funcs
	r := ex.root()
	if r.fc == nil || r.fc.Options["pure_funcs"] == "" {
		ex.eng.missing("dynamic call of "+c.Value.Name()+" (declare 'option pure_funcs yes' to treat function values as pure)", ex.position(pos))
		return ex.havocResult(rt)
	}
	ex.em.Assumed["function-typed values called in "+r.key+" are pure and total"] = true
	fv = ex.materialize(fv)
	ex.oblige("nil", ex.curPC, fmt.Sprintf("(not (= %s 0))", fv.E), pos, "call of nil func")
	sorts := []string{sInt}
	terms := []string{fv.E}
	for _, a := range args {
		a = ex.materialize(a)
		sorts = append(sorts, a.S)
		terms = append(terms, a.E)
	}
	mk := func(t types.Type, idx int) Val {
		s := ex.em.sortOf(t)
		name := fmt.Sprintf("app%d_%s_%s", idx, sanitize(strings.Join(sorts, "_")), sanitize(s))
		v := Val{E: ex.uf(name, sorts, s, terms...), S: s, T: t}
		return ex.named(v, "app")
	}
	if tup, ok := rt.(*types.Tuple); ok {
		if tup.Len() == 0 {
			return Val{T: rt}
		}
		var vs []Val
		for i := 0; i < tup.Len(); i++ {
			vs = append(vs, mk(tup.At(i).Type(), i))
		}
		return Val{Tuple: vs, T: rt}
	}
	return mk(rt, 0)
}

func (ex *Exec) havocResult(rt types.Type) Val {
	if tup, ok := rt.(*types.Tuple); ok {
		var vs []Val
		for i := 0; i < tup.Len(); i++ {
			vs = append(vs, ex.freshVal("res", tup.At(i).Type()))
		}
		return Val{Tuple: vs, T: rt}
	}
	return ex.freshVal("res", rt)
}

func (ex *Exec) freshVal(base string, t types.Type) Val {
	s := ex.em.sortOf(t)
	if s == "Tuple" {
		return Val{T: t}
	}
	v := Val{E: ex.em.newConst(base, s), S: s, T: t}
	if w := ex.em.wf(v); w != "" {
		ex.em.emit("(assert " + w + ")")
	}
	return v
}

// resolve an assigns clause list into heap targets
func (ex *Exec) assignTargets(fc *FuncContract, env *Env) (targets []assignTarget, all bool, ok bool) {
	if fc.Pure {
		return nil, false, true
	}
	if len(fc.Assigns) == 0 {
		return nil, true, false
	}
	em := ex.em
	for _, cl := range fc.Assigns {
		for _, e := range cl.Exprs {
			if cc, isCond := e.(*CCond); isCond {
				// "c ? target : nothing": the target may be modified only when c holds (in the entry state)
				if id, ok := cc.B.(*CIdent); !ok || id.Name != "nothing" {
					env.fail("assigns: a conditional target must have the form 'c ? target : nothing'")
				}
				sub := &FuncContract{Key: fc.Key, Pkg: fc.Pkg, Assigns: []*Clause{{Kind: "assigns", Exprs: []CExpr{cc.A}}}}
				ts, subAll, subOK := ex.assignTargets(sub, env)
				if subAll || !subOK {
					env.fail("assigns: bad conditional target %s", e)
				}
				c := env.evalBool(cc.C)
				for _, t := range ts {
					if t.cond != "" {
						t.cond = and(c, t.cond)
					} else {
						t.cond = c
					}
					targets = append(targets, t)
				}
				continue
			}
			switch x := e.(type) {
			case *CIdent:
				if x.Name == "nothing" {
					continue
				}
				if x.Name == "everything" {
					return nil, true, true
				}
				if _, isGhost := env.st.ghost[x.Name]; isGhost {
					targets = append(targets, assignTarget{heap: "ghost:" + x.Name})
					continue
				}
				// a package global
				sp := ex.eng.Prog.Package(env.pkg)
				if g, ok := sp.Members[x.Name].(*ssa.Global); ok {
					targets = append(targets, assignTarget{heap: "G_" + sanitize(pkgQualifier(g.Pkg.Pkg)+"_"+g.Name())})
					em.heapSorts()["G_"+sanitize(pkgQualifier(g.Pkg.Pkg)+"_"+g.Name())] = em.sortOf(deref(g.Type()))
					continue
				}
				env.fail("assigns: unknown target %s", x.Name)
			case *CSel:
				base := env.eval(x.X)
				pt, isPtr := base.T.Underlying().(*types.Pointer)
				if !isPtr {
					env.fail("assigns: %s is not a field of a heap object", e)
				}
				obj, path, _ := lookupField(base.T, env.pkg, x.Name)
				if _, ok := obj.(*types.Var); !ok || len(path) != 1 {
					env.fail("assigns: cannot resolve field %s", e)
				}
				hn := fieldHeapName(pt.Elem(), path[0])
				ft := pt.Elem().Underlying().(*types.Struct).Field(path[0]).Type()
				em.heapSorts()[hn] = "(Array Int " + em.sortOf(ft) + ")"
				targets = append(targets, assignTarget{heap: hn, ref: base.E})
			case *CUnary:
				if x.Op != "*" {
					env.fail("assigns: bad target %s", e)
				}
				p := env.eval(x.X)
				t := deref(p.T)
				if st, ok := t.Underlying().(*types.Struct); ok {
					for i := 0; i < st.NumFields(); i++ {
						hn := fieldHeapName(t, i)
						em.heapSorts()[hn] = "(Array Int " + em.sortOf(st.Field(i).Type()) + ")"
						targets = append(targets, assignTarget{heap: hn, ref: p.E})
					}
				} else {
					hn := boxHeapName(t)
					em.heapSorts()[hn] = "(Array Int " + em.sortOf(t) + ")"
					targets = append(targets, assignTarget{heap: hn, ref: p.E})
				}
			case *CCall:
				id, _ := x.Fun.(*CIdent)
				if id != nil && id.Name == "mapof" && len(x.Args) == 1 {
					// mapof(m): the contents (domain and values) of the map m
					v := env.eval(x.Args[0])
					mt, ok := v.T.Underlying().(*types.Map)
					if !ok {
						env.fail("assigns: mapof() of non-map")
					}
					dn, ds, vn, vs := mapHeaps(em, mt)
					em.heapSorts()[dn], em.heapSorts()[vn] = ds, vs
					targets = append(targets, assignTarget{heap: dn, ref: v.E}, assignTarget{heap: vn, ref: v.E})
					continue
				}
				if id == nil || (id.Name != "elems" && id.Name != "allof") || len(x.Args) != 1 {
					env.fail("assigns: bad target %s", e)
				}
				if id.Name == "allof" {
					// allof(T.f): the field f of every object of type T — the whole field heap
					sel, ok := x.Args[0].(*CSel)
					if !ok {
						env.fail("assigns: allof(T.f)")
					}
					t := env.resolveType(sel.X.String())
					obj, path, _ := lookupField(types.NewPointer(t), env.pkg, sel.Name)
					if _, ok := obj.(*types.Var); !ok || len(path) != 1 {
						env.fail("assigns: cannot resolve field %s", e)
					}
					hn := fieldHeapName(t, path[0])
					em.heapSorts()[hn] = "(Array Int " + em.sortOf(t.Underlying().(*types.Struct).Field(path[0]).Type()) + ")"
					targets = append(targets, assignTarget{heap: hn})
					continue
				}
				v := env.eval(x.Args[0])
				sl, ok := v.T.Underlying().(*types.Slice)
				if !ok {
					env.fail("assigns: elems() of non-slice")
				}
				hn := elemHeapName(sl.Elem())
				em.heapSorts()[hn] = "(Array Int (Array Int " + em.sortOf(sl.Elem()) + "))"
				targets = append(targets, assignTarget{heap: hn, ref: "(s_arr " + v.E + ")"})
			default:
				env.fail("assigns: bad target %s", e)
			}
		}
	}
	return targets, false, true
}

func (ex *Exec) contractEnv(fc *FuncContract, names []string, args []Val, pkg *types.Package, where string) *Env {
	env := &Env{ex: ex, st: ex.curSt, old: ex.curSt, vars: map[string]Val{}, pkg: pkg, where: where}
	if pkg == nil {
		env.pkg = ex.fn.Pkg.Pkg
	}
	if fc.Pkg != "" {
		if p := ex.eng.typesPkg(fc.Pkg); p != nil {
			env.pkg = p
		}
	}
	for i, n := range names {
		if i < len(args) && n != "" && n != "_" {
			env.vars[n] = ex.specView(args[i])
		}
	}
	return env
}

// specView: values visible to specifications must have terms
func (ex *Exec) specView(v Val) Val {
	if v.E == "" && v.Fn != nil {
		return ex.materialize(v)
	}
	return v
}

func bindResults(env *Env, sig *types.Signature, res Val) {
	n := sig.Results().Len()
	var vals []Val
	if n == 1 {
		vals = []Val{res}
	} else {
		vals = res.Tuple
	}
	for i := 0; i < n && i < len(vals); i++ {
		r := sig.Results().At(i)
		if r.Name() != "" && r.Name() != "_" {
			env.vars[r.Name()] = vals[i]
		}
		env.vars[fmt.Sprintf("result%d", i)] = vals[i]
	}
	if n == 1 {
		env.vars["result"] = res
	}
}

// applyContract: check requires, havoc assigns, assume ensures.
func (ex *Exec) applyContract(fc *FuncContract, key string, names []string, args []Val, sig *types.Signature, rt types.Type, pos token.Pos, pkg *types.Package) Val {
	em := ex.em
	fc.Used = true
	ex.root().usedContracts[key] = true
	if fc.Trusted {
		em.Assumed["trusted contract: "+key] = true
	}
	pre := ex.curSt
	env := ex.contractEnv(fc, names, args, pkg, "call "+key)
	env.st, env.old = pre, pre
	for _, cl := range fc.Requires {
		ex.obligeLabel("pre", ex.curPC, env.evalBool(cl.Expr), pos, key+":"+clauseLabel(cl))
	}
	if fc.NoReturn {
		for _, cl := range fc.PanicsIf {
			_ = cl
		}
		ex.panicSite(pos, "call of noreturn "+key, "")
		ex.curPC = "false"
		return ex.havocResult(rt)
	}
	for _, cl := range fc.PanicsIf {
		// the callee panics when the condition holds: the caller must exclude it (or handle it)
		c := env.evalBool(cl.Expr)
		if r := ex.root(); fc.Options["propagates"] != "" && (r.fc == nil || len(r.fc.PanicsIf) == 0) && ex.activeHandler() == nil {
			// the callee's panic is meant to unwind to an entry point's recover (the parser's bailout): a caller
			// that does not speak about panics itself is checked for the executions in which the callee returns
			ex.em.emit(fmt.Sprintf("(assert (=> %s (not %s)))", ex.curPC, c))
			ex.em.Assumed["a panic of "+key+" ("+cl.Text+") unwinds through "+r.key+" to a recover of an entry point; "+r.key+" is checked for the executions in which the call returns"] = true
			continue
		}
		ex.panicSiteCond(pos, "callee "+key+" panics_if "+cl.Text, c, cl.Label)
	}
	targets, all, ok := ex.assignTargets(fc, env)
	if !ok {
		ex.eng.errorf("%s: contract %s has neither 'pure' nor an 'assigns' clause but is called", ex.position(pos), key)
	}
	post := pre.clone()
	if all {
		ex.havocAll(post)
	} else if !fc.Pure {
		for _, t := range targets {
			ex.frameCheckTarget(pre, t, ex.curPC, pos, key)
			if g, isGhost := strings.CutPrefix(t.heap, "ghost:"); isGhost {
				old := post.ghost[g]
				nv := old
				nv.E = em.newConst("ghost_"+g, old.S)
				post.ghost[g] = nv
				continue
			}
			srt := em.heapSorts()[t.heap]
			cur := em.heapGet(post, t.heap, srt)
			if t.ref == "" {
				nh := em.newConst(t.heap, srt)
				if t.cond != "" {
					nh = em.define(t.heap, srt, ite(t.cond, nh, cur))
				}
				post.heaps[t.heap] = nh
				continue
			}
			inner := srt[len("(Array Int ") : len(srt)-1]
			fv := em.newConst("hv", inner)
			if t.cond != "" {
				em.heapSet(post, t.heap, srt, ite(t.cond, storeT(cur, t.ref, fv), cur))
			} else {
				em.heapSet(post, t.heap, srt, storeT(cur, t.ref, fv))
			}
			// type invariant of the new content
			ex.assumeHeapWF(t.heap, fv, inner)
		}
		// callee may allocate
		nt := em.newConst("top", sInt)
		em.emit(fmt.Sprintf("(assert (>= %s %s))", nt, em.heapGet(pre, "top", sInt)))
		post.heaps["top"] = nt
	} else {
		// a pure callee changes nothing the caller can observe but may still allocate its result: without a new
		// allocation counter a postcondition fresh(result) would be unsatisfiable at every call site
		nt := em.newConst("top", sInt)
		em.emit(fmt.Sprintf("(assert (>= %s %s))", nt, em.heapGet(pre, "top", sInt)))
		post.heaps["top"] = nt
	}
	ex.curSt = post
	var res Val
	if fc.Pure && fc.Options["function"] != "" {
		res = ex.pureResult(key, args, rt)
	} else {
		res = ex.havocResult(rt)
	}
	env.st = post
	bindResults(env, sig, res)
	for _, cl := range fc.Ensures {
		if strings.HasPrefix(cl.Label, "body.") {
			continue // proved of the body only; call sites see the [call:...] summary instead
		}
		em.assume(ex.curPC, env.evalBool(cl.Expr))
	}
	return res
}

// pureResult: result of a pure function as an uninterpreted function of its arguments
func (ex *Exec) pureResult(key string, args []Val, rt types.Type) Val {
	var sorts, terms []string
	for _, a := range args {
		a = ex.materialize(a)
		sorts = append(sorts, a.S)
		terms = append(terms, a.E)
	}
	mk := func(t types.Type, i int) Val {
		s := ex.em.sortOf(t)
		v := Val{E: ex.uf(fmt.Sprintf("pf%d_%s", i, sanitize(key)), sorts, s, terms...), S: s, T: t}
		return ex.named(v, "pf")
	}
	if tup, ok := rt.(*types.Tuple); ok {
		var vs []Val
		for i := 0; i < tup.Len(); i++ {
			vs = append(vs, mk(tup.At(i).Type(), i))
		}
		return Val{Tuple: vs, T: rt}
	}
	return mk(rt, 0)
}

func (ex *Exec) assumeHeapWF(heap, term, sort string) {
	// look up element type by heap name is not tracked; use sort-level facts only
	switch sort {
	case sSlice:
		ex.em.emit("(assert " + ex.em.wf(Val{E: term, S: sSlice, T: types.NewSlice(types.Typ[types.Int])}) + ")")
	}
}

func (ex *Exec) havocAll(st *State) {
	em := ex.em
	for name, srt := range em.heapSorts() {
		if name == "top" {
			continue
		}
		st.heaps[name] = em.newConst(name, srt)
	}
	nt := em.newConst("top", sInt)
	em.emit(fmt.Sprintf("(assert (>= %s %s))", nt, em.heapGet(st, "top", sInt)))
	st.heaps["top"] = nt
	ex.root().havocAllUsed = true
}

func clauseLabel(cl *Clause) string {
	if cl.Label != "" {
		return cl.Label
	}
	t := cl.Text
	if len(t) > 48 {
		t = t[:48] + "…"
	}
	return t
}

func (ex *Exec) obligeLabel(kind, pc, goal string, pos token.Pos, label string) {
	if goal == "true" {
		return
	}
	r := ex.root()
	if r.specMode > 0 {
		return
	}
	base := fmt.Sprintf("%s/%s:%s", r.key, kind, label)
	r.names[base]++
	name := base
	if r.names[base] > 1 {
		name = fmt.Sprintf("%s#%d", base, r.names[base])
	}
	ob := &Obligation{Name: name, Kind: kind, Func: r.key, Pos: ex.position(pos), Detail: label, Prefix: len(ex.em.lines), PC: pc, Goal: goal}
	ex.applyKnownFindings(ob)
	ex.em.Obls = append(ex.em.Obls, ob)
	if ob.KnownFinding == "" {
		ex.em.assume(pc, goal)
	}
}

// frame obligations -----------------------------------------------------------

func (ex *Exec) frameGoal(heap, ref string) (string, bool) {
	r := ex.root()
	if r.assignsAll {
		return "", false
	}
	if g, ok := strings.CutPrefix(heap, "ghost:"); ok && isScratchGhost(g) {
		return "", false
	}
	var alts []string
	if ref != "" {
		alts = append(alts, fmt.Sprintf("(>= %s %s)", ref, r.top0))
		// nothing can be written through nil (the nil obligation at the store guards that)
		alts = append(alts, fmt.Sprintf("(= %s 0)", ref))
	}
	for _, t := range r.assignsTargets {
		if t.heap != heap {
			continue
		}
		if t.ref == "" {
			if t.cond != "" {
				alts = append(alts, t.cond)
				continue
			}
			return "", false
		}
		if ref != "" {
			if t.cond != "" {
				alts = append(alts, and(t.cond, fmt.Sprintf("(= %s %s)", ref, t.ref)))
			} else {
				alts = append(alts, fmt.Sprintf("(= %s %s)", ref, t.ref))
			}
		}
	}
	return or(alts...), true
}

func (ex *Exec) frameCheck(st *State, p *Ptr, pc string, pos token.Pos) {
	switch p.Root {
	case rField:
		if g, ok := ex.frameGoal(fieldHeapName(p.Struct, p.Field), p.Ref); ok {
			ex.oblige("frame", pc, g, pos, "")
		}
	case rElem:
		if g, ok := ex.frameGoal(elemHeapName(p.RootT), p.Ref); ok {
			ex.oblige("frame", pc, g, pos, "")
		}
	case rGlobal:
		gl := p.Glob.(*ssa.Global)
		if g, ok := ex.frameGoal("G_"+sanitize(pkgQualifier(gl.Pkg.Pkg)+"_"+gl.Name()), ""); ok {
			ex.oblige("frame", pc, g, pos, "")
		}
	case rBox:
		t := p.RootT
		switch u := t.Underlying().(type) {
		case *types.Struct:
			var gs []string
			any := false
			for i := 0; i < u.NumFields(); i++ {
				if g, ok := ex.frameGoal(fieldHeapName(t, i), p.Ref); ok {
					gs = append(gs, g)
					any = true
				}
			}
			if any {
				ex.oblige("frame", pc, and(gs...), pos, "")
			}
		case *types.Array:
			if g, ok := ex.frameGoal(elemHeapName(u.Elem()), p.Ref); ok {
				ex.oblige("frame", pc, g, pos, "")
			}
		default:
			if g, ok := ex.frameGoal(boxHeapName(t), p.Ref); ok {
				ex.oblige("frame", pc, g, pos, "")
			}
		}
	}
}

func (ex *Exec) frameCheckTarget(st *State, t assignTarget, pc string, pos token.Pos, callee string) {
	if g, ok := ex.frameGoal(t.heap, t.ref); ok {
		if t.cond != "" {
			pc = and(pc, t.cond) // the callee touches the target only when its condition holds
		}
		ex.obligeLabel("frame", pc, g, pos, "callee "+callee+" assigns "+t.heap)
	}
}

// panic sites -----------------------------------------------------------------

func (ex *Exec) panicSite(pos token.Pos, what string, class string) {
	ex.panicSiteCond(pos, what, "true", "")
}

// panicSiteCond: a panic happens here when cond holds. Must be excluded unless declared by panics_if of the
// verified function (then cond must imply one of the declared conditions evaluated at entry).
func (ex *Exec) panicSiteCond(pos token.Pos, what, cond, label string) {
	r := ex.root()
	allowed := "false"
	if r.fc != nil && len(r.fc.PanicsIf) > 0 && r.panicsIfTerms != nil {
		allowed = or(r.panicsIfTerms...)
	}
	if ex.root().specMode == 0 && ex.handlePanic(ex.curPC, not(cond), ex.pendingPanicVal) {
		return
	}
	goal := implies(cond, allowed)
	lab := what
	if label != "" {
		lab = label
	}
	ex.obligeLabel("panic", ex.curPC, goal, pos, lab)
}

func (ex *Exec) handlerDepth() int {
	n := 0
	for p := ex; p != nil; p = p.parent {
		if p.inPanicHandler {
			n++
		}
	}
	return n
}

// termination of recursion ----------------------------------------------------

func (ex *Exec) checkCallMeasure(fc *FuncContract, key string, names []string, args []Val, pos token.Pos, pkg *types.Package) {
	r := ex.root()
	if r.fc == nil || r.entryMeasure == nil || fc.Decr == nil || r.specMode > 0 {
		return
	}
	if !fc.Iface && !ex.eng.sameSCC(r.key, key) {
		return
	}
	env := ex.contractEnv(fc, names, args, pkg, "measure of "+key)
	env.st, env.old = ex.measureSt, ex.measureSt
	var callee []string
	for _, e := range fc.Decr.Exprs {
		callee = append(callee, env.evalInt(e))
	}
	ex.obligeLabel("dec", ex.curPC, lexLess(callee, r.entryMeasure), pos, "call "+key)
}

// lexLess: a <lex b, and every b component a strictly decreases from is bounded below (>= 0)
func lexLess(a, b []string) string {
	n := len(a)
	if len(b) < n {
		n = len(b)
	}
	var alts []string
	eqPrefix := "true"
	for i := 0; i < n; i++ {
		alts = append(alts, and(eqPrefix, fmt.Sprintf("(< %s %s)", a[i], b[i]), fmt.Sprintf("(>= %s 0)", b[i])))
		eqPrefix = and(eqPrefix, fmt.Sprintf("(= %s %s)", a[i], b[i]))
	}
	return or(alts...)
}
