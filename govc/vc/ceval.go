package vc

import (
	"fmt"
	"go/constant"
	"go/token"
	"go/types"
	"math/big"
	"strings"

	"golang.org/x/tools/go/ssa"
)

// VStr is a "virtual" string / byte sequence used in specifications: a length and a character function.
type VStr struct {
	Len string
	At  func(k string) string
}

// Env is the evaluation context of a contract expression.
type Env struct {
	ex    *Exec
	st    *State
	old   *State
	vars  map[string]Val
	fn    *ssa.Function // for local variable resolution (loop invariants, site assertions)
	pkg   *types.Package
	at    token.Pos
	bound int    // number of enclosing binders (no emission of definitions allowed when > 0)
	abs   *absIdx // innermost quantifier translated over absolute backing-array positions
	where string // for error messages
}

type cerr struct{ msg string }

func (env *Env) fail(f string, a ...any) {
	panic(cerr{fmt.Sprintf("%s: %s", env.where, fmt.Sprintf(f, a...))})
}

func (env *Env) with(vars map[string]Val) *Env {
	n := *env
	n.vars = map[string]Val{}
	for k, v := range env.vars {
		n.vars[k] = v
	}
	for k, v := range vars {
		n.vars[k] = v
	}
	return &n
}

var nilVal = Val{E: "nil", S: "nil"}

// specVals carries virtual strings by side table keyed by term
func (env *Env) em() *Emitter { return env.ex.em }

func (env *Env) evalBool(e CExpr) string {
	v := env.eval(e)
	if v.S != sBool {
		env.fail("expression %s is not boolean (sort %s)", e, v.S)
	}
	return v.E
}

func (env *Env) evalInt(e CExpr) string {
	v := env.eval(e)
	if v.S != sInt {
		env.fail("expression %s is not an integer (sort %s)", e, v.S)
	}
	return v.E
}

func (env *Env) resolveType(text string) types.Type {
	if t, ok := env.parseTypeText(text); ok {
		return t
	}
	tv, err := types.Eval(env.ex.eng.Fset, env.pkg, token.NoPos, text)
	if err != nil || !tv.IsType() {
		// try as expression of type (T)(nil)
		env.fail("cannot resolve type %q: %v", text, err)
	}
	return tv.Type
}

// ghostType resolves a ghost variable type: a Go type, or array[K]V (a total mathematical map).
func (env *Env) ghostType(text string) (types.Type, string) {
	if strings.HasPrefix(text, "array[") {
		depth, i := 0, len("array")
		for ; i < len(text); i++ {
			if text[i] == '[' {
				depth++
			} else if text[i] == ']' {
				depth--
				if depth == 0 {
					break
				}
			}
		}
		kt, ks := env.ghostType(text[len("array["):i])
		vt, vs := env.ghostType(strings.TrimSpace(text[i+1:]))
		return types.NewMap(kt, vt), "(Array " + ks + " " + vs + ")"
	}
	t := env.resolveType(text)
	return t, env.em().sortOf(t)
}

func (env *Env) lookupLocal(name string) (*ssa.Alloc, bool) {
	if env.fn == nil {
		return nil, false
	}
	if m := env.ex.eng.Renames[funcKey(env.fn)]; m != nil {
		// the function's code has the recorded shape but a local was renamed: follow the renaming
		if nn, ok := m[name]; ok {
			name = nn
		}
	}
	var best *ssa.Alloc
	var bestScope *types.Scope
	for _, b := range env.fn.Blocks {
		for _, in := range b.Instrs {
			a, ok := in.(*ssa.Alloc)
			if !ok || a.Comment != name {
				continue
			}
			// find the types.Var
			sc := env.ex.eng.scopeOfVar(env.fn, a)
			if sc == nil {
				if best == nil {
					best = a
				}
				continue
			}
			if env.at != token.NoPos && !(sc.Pos() <= env.at && env.at <= sc.End()) {
				continue
			}
			if bestScope == nil || (sc.Pos() >= bestScope.Pos() && sc.End() <= bestScope.End()) {
				best, bestScope = a, sc
			}
		}
	}
	return best, best != nil
}

func constVal(em *Emitter, c *types.Const) Val {
	t := c.Type()
	switch c.Val().Kind() {
	case constant.Bool:
		return Val{E: fmt.Sprint(constant.BoolVal(c.Val())), S: sBool, T: t}
	case constant.String:
		return Val{E: em.strConst(constant.StringVal(c.Val())), S: sStr, T: t}
	case constant.Int:
		bi, _ := new(big.Int).SetString(c.Val().ExactString(), 10)
		return Val{E: smtInt(bi), S: sInt, T: t}
	}
	return Val{}
}

func (env *Env) pkgMember(pkg *types.Package, name string) (Val, bool) {
	obj := pkg.Scope().Lookup(name)
	if obj == nil {
		return Val{}, false
	}
	switch o := obj.(type) {
	case *types.Const:
		v := constVal(env.em(), o)
		if v.E == "" {
			env.fail("unsupported constant %s", name)
		}
		return v, true
	case *types.Var:
		sp := env.ex.eng.Prog.Package(pkg)
		if sp == nil {
			env.fail("package %s not in SSA program", pkg.Path())
		}
		g, ok := sp.Members[name].(*ssa.Global)
		if !ok {
			env.fail("%s.%s is not a global", pkg.Name(), name)
		}
		p := &Ptr{Root: rGlobal, Glob: g, RootT: o.Type(), Elem: o.Type()}
		return env.ex.readRoot(env.st, p), true
	}
	return Val{}, false
}

func (env *Env) ident(name string) Val {
	if v, ok := env.vars[name]; ok {
		return v
	}
	if a, ok := env.lookupLocal(name); ok {
		if a.Heap {
			// a parameter whose address is taken lives in a heap cell that is only filled by the body: in the entry
			// state (old(...)) the name still denotes the parameter's value
			if pval, isParam := env.ex.params[name]; isParam && env.fn == env.ex.fn && env.st == env.ex.root().entrySt {
				return pval
			}
			pv, ok := env.ex.vals[a]
			if !ok {
				env.fail("local %s not allocated yet here", name)
			}
			return env.ex.loadPlainNoOb(env.st, pv)
		}
		v, ok := env.st.cells[a]
		if !ok {
			// a parameter's cell does not exist yet in the entry state: old(param) is the entry value
			if pv, isParam := env.ex.params[name]; isParam && env.fn == env.ex.fn {
				return pv
			}
			env.fail("local %s is not live here", name)
		}
		return v
	}
	if pv, isParam := env.ex.params[name]; isParam && env.fn != nil && env.fn == env.ex.fn {
		return pv
	}
	if g, ok := env.st.ghost[name]; ok {
		return g
	}
	if v, ok := env.pkgMember(env.pkg, name); ok {
		return v
	}
	env.fail("unresolved identifier %s", name)
	return Val{}
}

func (ex *Exec) loadPlainNoOb(st *State, p Val) Val {
	if p.P != nil {
		v := ex.readRoot(st, p.P)
		for _, pe := range p.P.Path {
			v = ex.getPath(v, pe)
		}
		return v
	}
	return ex.loadPlain(st, p)
}

func (env *Env) importedPkg(name string) *types.Package {
	if _, shadow := env.vars[name]; shadow {
		return nil
	}
	// the import as the source file of the function under contract sees it (local aliases, same-named packages);
	// when no position is known, any file of the package that imports under this name
	pos := token.NoPos
	if f := env.ex.fn; f != nil && f.Pkg != nil && f.Pkg.Pkg == env.pkg {
		pos = f.Pos()
	}
	if p := env.ex.eng.fileImport(env.pkg, pos, name); p != nil {
		return p
	}
	if pos != token.NoPos {
		if p := env.ex.eng.fileImport(env.pkg, token.NoPos, name); p != nil {
			return p
		}
	}
	for _, imp := range env.pkg.Imports() {
		if imp.Name() == name {
			return imp
		}
	}
	// also allow any loaded package by name (for external contract files)
	for _, p := range env.ex.eng.Prog.AllPackages() {
		if p.Pkg.Name() == name && name != env.pkg.Name() {
			if _, isLocal := env.lookupLocal(name); !isLocal {
				return p.Pkg
			}
		}
	}
	return nil
}

func (env *Env) selectField(x Val, name string) Val {
	if x.T == nil {
		env.fail("selector .%s on untyped value", name)
	}
	obj, path, _ := lookupField(x.T, env.pkg, name)
	fld, ok := obj.(*types.Var)
	if !ok || !fld.IsField() {
		env.fail("no field %s in %v", name, x.T)
	}
	cur := x
	for _, idx := range path {
		if pt, ok := cur.T.Underlying().(*types.Pointer); ok {
			stt := pt.Elem()
			ft := stt.Underlying().(*types.Struct).Field(idx).Type()
			p := &Ptr{Root: rField, Ref: cur.E, Struct: stt, Field: idx, RootT: ft, Elem: ft}
			cur = env.ex.readRoot(env.st, p)
		} else {
			cur = env.ex.getPath(cur, pathElem{Field: idx, T: cur.T})
		}
	}
	return cur
}

func (env *Env) vstrOf(v Val) *VStr {
	if vs, ok := env.ex.root().vstrs[v.E]; ok && v.S == "VStr" {
		return vs
	}
	switch v.S {
	case sStr:
		e := v.E
		return &VStr{Len: "(slen " + e + ")", At: func(k string) string { return "(sat " + e + " " + k + ")" }}
	case sSlice:
		sl, ok := v.T.Underlying().(*types.Slice)
		if !ok {
			env.fail("slice value without slice type")
		}
		hn := elemHeapName(sl.Elem())
		hs := "(Array Int (Array Int " + env.em().sortOf(sl.Elem()) + "))"
		h := env.em().heapGet(env.st, hn, hs)
		e := v.E
		return &VStr{Len: "(s_len " + e + ")", At: func(k string) string {
			return fmt.Sprintf("(select (select %s (s_arr %s)) (+ (s_off %s) %s))", h, e, e, k)
		}}
	}
	env.fail("value of sort %s is not a sequence", v.S)
	return nil
}

func (env *Env) mkVStr(vs *VStr, t types.Type) Val {
	r := env.ex.root()
	r.vstrN++
	key := fmt.Sprintf("vstr#%d", r.vstrN)
	r.vstrs[key] = vs
	return Val{E: key, S: "VStr", T: t}
}

func (env *Env) freshBound(base string) string { return env.em().fresh("q_" + base) }

func (env *Env) seqEq(a, b *VStr) string {
	k := env.freshBound("k")
	return fmt.Sprintf("(and (= %s %s) (forall ((%s Int)) (=> (and (<= 0 %s) (< %s %s)) (= %s %s))))", a.Len, b.Len, k, k, k, a.Len, a.At(k), b.At(k))
}

func (env *Env) equal(x, y Val, xe, ye CExpr) string {
	// nil comparisons
	if x.S == "nil" && y.S == "nil" {
		return "true"
	}
	if x.S == "nil" {
		x, y = y, x
		xe, ye = ye, xe
	}
	if y.S == "nil" {
		switch x.S {
		case sSlice:
			return fmt.Sprintf("(= (s_arr %s) 0)", x.E)
		case sIface:
			return fmt.Sprintf("(= (i_tag %s) 0)", x.E)
		case sInt:
			return fmt.Sprintf("(= %s 0)", x.E)
		}
		env.fail("nil comparison on sort %s", x.S)
	}
	if x.S == "VStr" || y.S == "VStr" {
		return env.seqEq(env.vstrOf(x), env.vstrOf(y))
	}
	if x.S == sStr && y.S == sStr {
		if s, ok := ye.(*CStr); ok {
			return strEqConst(x.E, s.V)
		}
		if s, ok := xe.(*CStr); ok {
			return strEqConst(y.E, s.V)
		}
	}
	if x.S != y.S {
		env.fail("comparison of different sorts %s and %s (%s vs %s)", x.S, y.S, xe, ye)
	}
	return fmt.Sprintf("(= %s %s)", x.E, y.E)
}

func (env *Env) eval(e CExpr) Val {
	em := env.em()
	switch x := e.(type) {
	case *CInt:
		bi, ok := new(big.Int).SetString(x.V, 0)
		if !ok {
			env.fail("bad integer %s", x.V)
		}
		return Val{E: smtInt(bi), S: sInt, T: types.Typ[types.UntypedInt]}
	case *CChar:
		return Val{E: fmt.Sprint(x.V), S: sInt, T: types.Typ[types.UntypedRune]}
	case *CStr:
		return Val{E: em.strConst(x.V), S: sStr, T: types.Typ[types.String]}
	case *CBool:
		return Val{E: fmt.Sprint(x.V), S: sBool, T: types.Typ[types.Bool]}
	case *CNil:
		return nilVal
	case *CIdent:
		return env.ident(x.Name)
	case *CSel:
		if id, ok := x.X.(*CIdent); ok {
			if _, isVar := env.vars[id.Name]; !isVar {
				if _, isLocal := env.lookupLocal(id.Name); !isLocal {
					if pkg := env.importedPkg(id.Name); pkg != nil {
						v, ok := env.pkgMember(pkg, x.Name)
						if !ok {
							env.fail("no member %s in package %s", x.Name, id.Name)
						}
						return v
					}
				}
			}
		}
		return env.selectField(env.eval(x.X), x.Name)
	case *CUnary:
		switch x.Op {
		case "!":
			return Val{E: not(env.evalBool(x.X)), S: sBool, T: types.Typ[types.Bool]}
		case "-":
			return Val{E: "(- " + env.evalInt(x.X) + ")", S: sInt, T: types.Typ[types.UntypedInt]}
		case "*":
			p := env.eval(x.X)
			return env.ex.loadPlainNoOb(env.st, p)
		}
		env.fail("unary %s unsupported", x.Op)
	case *CBinary:
		switch x.Op {
		case "&&":
			return Val{E: and(env.evalBool(x.X), env.evalBool(x.Y)), S: sBool, T: types.Typ[types.Bool]}
		case "||":
			return Val{E: or(env.evalBool(x.X), env.evalBool(x.Y)), S: sBool, T: types.Typ[types.Bool]}
		case "==>":
			return Val{E: implies(env.evalBool(x.X), env.evalBool(x.Y)), S: sBool, T: types.Typ[types.Bool]}
		case "<==>":
			return Val{E: fmt.Sprintf("(= %s %s)", env.evalBool(x.X), env.evalBool(x.Y)), S: sBool, T: types.Typ[types.Bool]}
		case "==", "!=":
			a, b := env.eval(x.X), env.eval(x.Y)
			r := env.equal(a, b, x.X, x.Y)
			if x.Op == "!=" {
				r = not(r)
			}
			return Val{E: r, S: sBool, T: types.Typ[types.Bool]}
		case "<", "<=", ">", ">=":
			return Val{E: fmt.Sprintf("(%s %s %s)", x.Op, env.evalInt(x.X), env.evalInt(x.Y)), S: sBool, T: types.Typ[types.Bool]}
		case "+", "-", "*":
			a, b := env.eval(x.X), env.eval(x.Y)
			if x.Op == "+" && (a.S == sStr || a.S == "VStr" || a.S == sSlice) {
				va, vb := env.vstrOf(a), env.vstrOf(b)
				return env.mkVStr(&VStr{Len: add(va.Len, vb.Len), At: func(k string) string {
					return ite("(< "+k+" "+va.Len+")", va.At(k), vb.At(sub(k, va.Len)))
				}}, a.T)
			}
			if a.S != sInt || b.S != sInt {
				env.fail("arithmetic on non-integers in %s", e)
			}
			t := a.T
			if t == nil || isUntyped(t) {
				t = b.T
			}
			return Val{E: fmt.Sprintf("(%s %s %s)", x.Op, a.E, b.E), S: sInt, T: t}
		case "/":
			a, b := env.evalInt(x.X), env.evalInt(x.Y)
			return Val{E: fmt.Sprintf("(ite (>= %s 0) (div %s %s) (- (div (- %s) %s)))", a, a, b, a, b), S: sInt, T: types.Typ[types.UntypedInt]}
		case "%":
			a, b := env.evalInt(x.X), env.evalInt(x.Y)
			return Val{E: fmt.Sprintf("(ite (>= %s 0) (mod %s %s) (- (mod (- %s) %s)))", a, a, b, a, b), S: sInt, T: types.Typ[types.UntypedInt]}
		case "&":
			a := env.evalInt(x.X)
			if c, ok := x.Y.(*CInt); ok {
				bi, _ := new(big.Int).SetString(c.V, 0)
				if r, ok := env.ex.bitop(token.AND, a, bi, types.Typ[types.Int]); ok {
					return Val{E: r, S: sInt, T: types.Typ[types.UntypedInt]}
				}
			}
			b := env.eval(x.Y)
			if c, ok := constOfVal(b); ok {
				if r, ok := env.ex.bitop(token.AND, a, c, types.Typ[types.Int]); ok {
					return Val{E: r, S: sInt, T: types.Typ[types.UntypedInt]}
				}
			}
			env.fail("& needs a constant right operand")
		}
		env.fail("binary %s unsupported", x.Op)
	case *CCond:
		c := env.evalBool(x.C)
		a, b := env.eval(x.A), env.eval(x.B)
		if a.S == "nil" {
			a = env.nilAs(b)
		}
		if b.S == "nil" {
			b = env.nilAs(a)
		}
		if a.S != b.S {
			env.fail("?: branches of different sorts")
		}
		if a.S == "VStr" {
			va, vb := env.vstrOf(a), env.vstrOf(b)
			return env.mkVStr(&VStr{Len: ite(c, va.Len, vb.Len), At: func(k string) string { return ite(c, va.At(k), vb.At(k)) }}, a.T)
		}
		return Val{E: ite(c, a.E, b.E), S: a.S, T: a.T}
	case *CQuant:
		v := env.freshBound(x.Var)
		srt := sInt
		var t types.Type = types.Typ[types.Int]
		var guard string
		inner := env.with(nil)
		inner.bound++
		if x.Lo != nil {
			lo, hi := env.evalInt(x.Lo), env.evalInt(x.Hi)
			guard = fmt.Sprintf("(and (<= %s %s) (< %s %s))", lo, v, v, hi)
		} else {
			t = env.resolveType(x.Type)
			srt = em.sortOf(t)
			guard = em.wf(Val{E: v, S: srt, T: t})
			if guard == "" {
				guard = "true"
			}
		}
		inner.vars[x.Var] = Val{E: v, S: srt, T: t}
		if x.Lo != nil {
			if sx := soleIndexedSlice(x.Body, x.Var); sx != nil {
				if sv := env.eval(sx); sv.S == sSlice {
					// quantify over absolute positions of the backing array
					off := "(s_off " + sv.E + ")"
					lo, hi := env.evalInt(x.Lo), env.evalInt(x.Hi)
					guard = fmt.Sprintf("(and (<= %s %s) (< %s %s))", add(off, lo), v, v, add(off, hi))
					inner.abs = &absIdx{varName: x.Var, sliceE: sv.E, abs: v}
					inner.vars[x.Var] = Val{E: "(- " + v + " " + off + ")", S: sInt, T: types.Typ[types.Int]}
				}
			}
		}
		body := inner.evalBool(x.Body)
		em.usesQuant = true
		if x.Forall {
			// forall a :: forall b :: P  becomes one quantifier over (a b): the instantiation pattern then covers
			// all bound variables (nested single-variable quantifiers have no usable pattern for the outer ones)
			if binders, innerBody, ok := splitForall(body); ok {
				return Val{E: fmt.Sprintf("(forall ((%s %s) %s) %s)", v, srt, binders, implies(guard, innerBody)), S: sBool, T: types.Typ[types.Bool]}
			}
			return Val{E: fmt.Sprintf("(forall ((%s %s)) %s)", v, srt, implies(guard, body)), S: sBool, T: types.Typ[types.Bool]}
		}
		return Val{E: fmt.Sprintf("(exists ((%s %s)) %s)", v, srt, and(guard, body)), S: sBool, T: types.Typ[types.Bool]}
	case *CIndex:
		a := env.eval(x.X)
		switch {
		case a.S == sSlice && env.abs != nil && a.E == env.abs.sliceE && isIdentNamed(x.I, env.abs.varName):
			sl := a.T.Underlying().(*types.Slice)
			hn := elemHeapName(sl.Elem())
			hs := "(Array Int (Array Int " + em.sortOf(sl.Elem()) + "))"
			h := em.heapGet(env.st, hn, hs)
			return Val{E: fmt.Sprintf("(select (select %s (s_arr %s)) %s)", h, a.E, env.abs.abs), S: em.sortOf(sl.Elem()), T: sl.Elem()}
		case a.S == sStr || a.S == "VStr" || a.S == sSlice:
			i := env.evalInt(x.I)
			var et types.Type = types.Typ[types.Uint8]
			srt := sInt
			if a.S == sSlice {
				et = a.T.Underlying().(*types.Slice).Elem()
				srt = em.sortOf(et)
			}
			return Val{E: env.vstrOf(a).At(i), S: srt, T: et}
		case strings.HasPrefix(a.S, "(Array") && isMap(a.T):
			// ghost mathematical map
			mt := a.T.Underlying().(*types.Map)
			k := env.eval(x.I)
			_, vs := ghostSorts(em, mt)
			return Val{E: selectT(a.E, k.E), S: vs, T: mt.Elem()}
		case strings.HasPrefix(a.S, "(Array"):
			at := a.T.Underlying().(*types.Array)
			return Val{E: selectT(a.E, env.evalInt(x.I)), S: em.sortOf(at.Elem()), T: at.Elem()}
		case a.T != nil && isMap(a.T):
			return env.ex.mapGet(env.st, a, env.eval(x.I))
		}
		env.fail("index on sort %s", a.S)
	case *CSlice:
		a := env.eval(x.X)
		lo := "0"
		if x.Lo != nil {
			lo = env.evalInt(x.Lo)
		}
		switch a.S {
		case sSlice:
			hi := "(s_len " + a.E + ")"
			if x.Hi != nil {
				hi = env.evalInt(x.Hi)
			}
			return Val{E: fmt.Sprintf("(mk_slice (s_arr %s) %s %s %s)", a.E, add("(s_off "+a.E+")", lo), sub(hi, lo), sub("(s_cap "+a.E+")", lo)), S: sSlice, T: a.T}
		case sStr, "VStr":
			va := env.vstrOf(a)
			hi := va.Len
			if x.Hi != nil {
				hi = env.evalInt(x.Hi)
			}
			return env.mkVStr(&VStr{Len: sub(hi, lo), At: func(k string) string { return va.At(add(lo, k)) }}, a.T)
		}
		env.fail("slice expression on sort %s", a.S)
	case *CTypeAssert:
		a := env.eval(x.X)
		if a.S != sIface {
			env.fail("type assertion on non-interface")
		}
		tt := env.resolveType(x.Type)
		r := env.ex.unbox(a.E, tt)
		if _, isIface := tt.Underlying().(*types.Interface); !isIface && !strings.Contains(r.E, "q_") {
			// type invariant of the value held by an interface of that dynamic type (closed terms only)
			if w := em.wf(r); w != "" {
				em.emit(fmt.Sprintf("(assert (=> (= (i_tag %s) %d) %s))", a.E, em.typeTag(tt), w))
			}
		}
		return r
	case *CCall:
		return env.call(x)
	}
	env.fail("unsupported expression %s", e)
	return Val{}
}

// ghostSorts: sorts of key and value of a ghost mathematical map (nested maps are again mathematical)
func ghostSorts(em *Emitter, mt *types.Map) (string, string) {
	s := func(t types.Type) string {
		if m, ok := t.(*types.Map); ok {
			k, v := ghostSorts(em, m)
			return "(Array " + k + " " + v + ")"
		}
		return em.sortOf(t)
	}
	return s(mt.Key()), s(mt.Elem())
}

func isUntyped(t types.Type) bool {
	b, ok := t.(*types.Basic)
	return ok && b.Info()&types.IsUntyped != 0
}

func isMap(t types.Type) bool {
	_, ok := t.Underlying().(*types.Map)
	return ok
}

func constOfVal(v Val) (*big.Int, bool) {
	if isNumeral(v.E) {
		bi, ok := new(big.Int).SetString(v.E, 10)
		return bi, ok
	}
	return nil, false
}

func (env *Env) nilAs(like Val) Val {
	switch like.S {
	case sSlice:
		return Val{E: "(mk_slice 0 0 0 0)", S: sSlice, T: like.T}
	case sIface:
		return Val{E: "(mk_iface 0 0)", S: sIface, T: like.T}
	case sInt:
		return Val{E: "0", S: sInt, T: like.T}
	}
	env.fail("nil of sort %s", like.S)
	return Val{}
}

var intConvs = map[string]types.Type{"int": types.Typ[types.Int], "int64": types.Typ[types.Int64], "int32": types.Typ[types.Int32], "rune": types.Typ[types.Int32],
	"byte": types.Typ[types.Uint8], "uint8": types.Typ[types.Uint8], "uint": types.Typ[types.Uint], "uint32": types.Typ[types.Uint32], "uint64": types.Typ[types.Uint64], "int8": types.Typ[types.Int8], "int16": types.Typ[types.Int16], "uint16": types.Typ[types.Uint16]}

func (env *Env) call(x *CCall) Val {
	em := env.em()
	// method-like / package-qualified spec function calls are not supported; only plain names
	name := ""
	switch f := x.Fun.(type) {
	case *CIdent:
		name = f.Name
	case *CSel:
		if id, ok := f.X.(*CIdent); ok {
			if pkg := env.importedPkg(id.Name); pkg != nil {
				// conversion to a named type or spec function of another package
				if tn, ok := pkg.Scope().Lookup(f.Name).(*types.TypeName); ok && len(x.Args) == 1 {
					v := env.eval(x.Args[0])
					if v.S == "nil" {
						return Val{E: em.zero(tn.Type()).E, S: em.sortOf(tn.Type()), T: tn.Type()}
					}
					if isInterface(tn.Type()) && v.S != sIface && v.T != nil {
			return env.ex.makeIface(v, v.T, tn.Type())
		}
		v.T = tn.Type()
					return v
				}
				if sf, ok := env.ex.eng.CS.Specs[pkg.Path()+"."+f.Name]; ok {
					return env.specCall(sf, x.Args)
				}
			}
		}
		env.fail("unsupported call %s", x)
	default:
		env.fail("unsupported call %s", x)
	}
	switch name {
	case "old":
		if len(x.Args) != 1 {
			env.fail("old takes one argument")
		}
		if env.old == nil {
			env.fail("old() not available here")
		}
		n := *env
		n.st = env.old
		return n.eval(x.Args[0])
	case "applyfn":
		// applyfn(f, i, args...): the i-th result of calling the function value f on args — the same uninterpreted
		// application the engine uses for calls through function values declared pure (option pure_funcs)
		if len(x.Args) < 2 {
			env.fail("applyfn(f, i, args...)")
		}
		f := env.ex.materialize(env.eval(x.Args[0]))
		ki, ok := x.Args[1].(*CInt)
		sig, ok2 := f.T.Underlying().(*types.Signature)
		if !ok || !ok2 {
			env.fail("applyfn: need a function value and a constant result index")
		}
		var idx int
		fmt.Sscan(ki.V, &idx)
		if idx >= sig.Results().Len() {
			env.fail("applyfn: result index out of range")
		}
		sorts := []string{sInt}
		terms := []string{f.E}
		for _, a := range x.Args[2:] {
			v := env.eval(a)
			sorts = append(sorts, v.S)
			terms = append(terms, v.E)
		}
		rt := sig.Results().At(idx).Type()
		rs := em.sortOf(rt)
		name := fmt.Sprintf("app%d_%s_%s", idx, sanitize(strings.Join(sorts, "_")), sanitize(rs))
		return Val{E: env.ex.uf(name, sorts, rs, terms...), S: rs, T: rt}
	case "ival":
		// ival(x): the payload of an interface value (the pointer, for pointer dynamic types)
		v := env.eval(x.Args[0])
		if v.S != sIface {
			env.fail("ival of non-interface")
		}
		return Val{E: "(i_val " + v.E + ")", S: sInt, T: types.Typ[types.Int]}
	case "closedtype":
		// closedtype(x, I): the dynamic type of x is one of the types declared in this package that implement I
		// (enumerated from go/types on every run)
		if len(x.Args) != 2 {
			env.fail("closedtype(x, Interface)")
		}
		v := env.eval(x.Args[0])
		it := env.resolveType(x.Args[1].String())
		iface, ok := it.Underlying().(*types.Interface)
		if !ok || v.S != sIface {
			env.fail("closedtype: need an interface value and an interface type")
		}
		var alts []string
		for _, n := range env.pkg.Scope().Names() {
			tn, ok := env.pkg.Scope().Lookup(n).(*types.TypeName)
			if !ok {
				continue
			}
			if _, isIface := tn.Type().Underlying().(*types.Interface); isIface {
				continue
			}
			for _, t := range []types.Type{types.NewPointer(tn.Type()), tn.Type()} {
				if types.Implements(t, iface) {
					alts = append(alts, fmt.Sprintf("(= (i_tag %s) %d)", v.E, em.typeTag(t)))
					break
				}
			}
		}
		return Val{E: or(alts...), S: sBool, T: types.Typ[types.Bool]}
	case "before":
		// before(e), in a site clause: the value of e in the state just before the instruction of the site
		if len(x.Args) != 1 {
			env.fail("before(e)")
		}
		if env.ex.root().preSiteSt == nil {
			env.fail("before() is only available in 'at <site>' clauses")
		}
		n := *env
		n.st = env.ex.root().preSiteSt
		return n.eval(x.Args[0])
	case "athead":
		// athead(k, e): the value of e when the head of loop #k of this function was last reached (start of the
		// current iteration of that enclosing loop)
		if len(x.Args) != 2 {
			env.fail("athead(k, e)")
		}
		ki, ok := x.Args[0].(*CInt)
		if !ok {
			env.fail("athead: first argument must be a loop ordinal")
		}
		for _, li := range env.ex.loopInfo {
			if fmt.Sprint(li.ordinal) == ki.V && li.headSt != nil {
				n := *env
				n.st = li.headSt
				return n.eval(x.Args[1])
			}
		}
		env.fail("athead: loop #%s has not been entered here", ki.V)
	case "len":
		v := env.eval(x.Args[0])
		switch {
		case v.S == sSlice:
			return Val{E: "(s_len " + v.E + ")", S: sInt, T: types.Typ[types.Int]}
		case v.S == sStr:
			return Val{E: "(slen " + v.E + ")", S: sInt, T: types.Typ[types.Int]}
		case v.S == "VStr":
			return Val{E: env.vstrOf(v).Len, S: sInt, T: types.Typ[types.Int]}
		case strings.HasPrefix(v.S, "(Array"):
			return Val{E: fmt.Sprint(v.T.Underlying().(*types.Array).Len()), S: sInt, T: types.Typ[types.Int]}
		case v.T != nil && isMap(v.T):
			return Val{E: env.ex.mapLen(env.st, v), S: sInt, T: types.Typ[types.Int]}
		}
		env.fail("len of sort %s", v.S)
	case "cap":
		v := env.eval(x.Args[0])
		if v.S == sSlice {
			return Val{E: "(s_cap " + v.E + ")", S: sInt, T: types.Typ[types.Int]}
		}
		env.fail("cap of sort %s", v.S)
	case "string":
		v := env.eval(x.Args[0])
		if v.S == sStr || v.S == "VStr" {
			return v
		}
		if v.S == sSlice {
			return env.mkVStr(env.vstrOf(v), types.Typ[types.String])
		}
		env.fail("string() of sort %s", v.S)
	case "istype":
		v := env.eval(x.Args[0])
		t := env.resolveType(x.Args[1].(*CType).Text)
		if v.S != sIface {
			env.fail("istype on non-interface")
		}
		if isInterface(t) {
			return Val{E: and(fmt.Sprintf("(not (= (i_tag %s) 0))", v.E), env.ex.implementsPred(t, "(i_tag "+v.E+")")), S: sBool}
		}
		return Val{E: fmt.Sprintf("(= (i_tag %s) %d)", v.E, em.typeTag(t)), S: sBool, T: types.Typ[types.Bool]}
	case "typetag":
		v := env.eval(x.Args[0])
		return Val{E: "(i_tag " + v.E + ")", S: sInt, T: types.Typ[types.Int]}
	case "store":
		a := env.eval(x.Args[0])
		if !strings.HasPrefix(a.S, "(Array") {
			env.fail("store on sort %s", a.S)
		}
		k, v := env.eval(x.Args[1]), env.eval(x.Args[2])
		if v.S == "nil" {
			if mt, ok := a.T.(*types.Map); ok {
				v = Val{E: em.zero(mt.Elem()).E, S: em.sortOf(mt.Elem())}
			}
		}
		return Val{E: storeT(a.E, k.E, v.E), S: a.S, T: a.T}
	case "has":
		m := env.eval(x.Args[0])
		if m.T == nil || !isMap(m.T) || m.S != sInt {
			env.fail("has() needs a Go map")
		}
		k := env.eval(x.Args[1])
		return Val{E: env.ex.mapHas(env.st, m, k), S: sBool, T: types.Typ[types.Bool]}
	case "b2i":
		return Val{E: ite(env.evalBool(x.Args[0]), "1", "0"), S: sInt, T: types.Typ[types.Int]}
	case "fresh":
		// fresh(p): p was allocated during the call/function (ref >= top at entry)
		v := env.eval(x.Args[0])
		if env.old == nil {
			env.fail("fresh() needs an old state")
		}
		ref := v.E
		if v.S == sSlice {
			ref = "(s_arr " + v.E + ")"
		}
		if v.S == sIface {
			ref = "(i_val " + v.E + ")"
		}
		return Val{E: fmt.Sprintf("(and (>= %s %s) (< %s %s))", ref, em.heapGet(env.old, "top", sInt), ref, em.heapGet(env.st, "top", sInt)), S: sBool, T: types.Typ[types.Bool]}
	case "samearray":
		// samearray(a, b): the slices a and b have the same backing array
		if len(x.Args) != 2 {
			env.fail("samearray(a, b)")
		}
		sa, sb := env.eval(x.Args[0]), env.eval(x.Args[1])
		if sa.S != sSlice || sb.S != sSlice {
			env.fail("samearray() of non-slices")
		}
		return Val{E: fmt.Sprintf("(= (s_arr %s) (s_arr %s))", sa.E, sb.E), S: sBool, T: types.Typ[types.Bool]}
	case "disjoint":
		// disjoint(a, b): the slices a and b share no backing array (or one of them has none)
		if len(x.Args) != 2 {
			env.fail("disjoint(a, b)")
		}
		a, b := env.eval(x.Args[0]), env.eval(x.Args[1])
		if a.S != sSlice || b.S != sSlice {
			env.fail("disjoint() of non-slices")
		}
		return Val{E: fmt.Sprintf("(or (not (= (s_arr %s) (s_arr %s))) (= (s_cap %s) 0) (= (s_cap %s) 0))", a.E, b.E, a.E, b.E), S: sBool, T: types.Typ[types.Bool]}
	case "allocated":
		v := env.eval(x.Args[0])
		ref := v.E
		if v.S == sSlice {
			ref = "(s_arr " + v.E + ")"
		}
		return Val{E: fmt.Sprintf("(< %s %s)", ref, em.heapGet(env.st, "top", sInt)), S: sBool, T: types.Typ[types.Bool]}
	}
	if name == "any" && len(x.Args) == 1 {
		// conversion to interface{}: boxes the value with the tag of its Go type
		v := env.eval(x.Args[0])
		if v.S == sIface {
			return v
		}
		if v.T == nil || isUntyped(v.T) {
			env.fail("any(%s): operand needs a definite Go type", x.Args[0])
		}
		return env.ex.makeIface(v, v.T, types.NewInterfaceType(nil, nil))
	}
	if t, ok := intConvs[name]; ok && len(x.Args) == 1 {
		if _, shadow := env.ex.eng.CS.Specs[env.pkg.Path()+"."+name]; !shadow {
			v := env.eval(x.Args[0])
			if v.S != sInt {
				env.fail("%s() of sort %s", name, v.S)
			}
			v.T = t
			return v
		}
	}
	if sf, ok := env.ex.eng.CS.Specs[env.pkg.Path()+"."+name]; ok {
		return env.specCall(sf, x.Args)
	}
	if sf, ok := env.ex.eng.CS.Specs["."+name]; ok {
		return env.specCall(sf, x.Args)
	}
	// named type conversion in the current package
	if tn, ok := env.pkg.Scope().Lookup(name).(*types.TypeName); ok && len(x.Args) == 1 {
		v := env.eval(x.Args[0])
		if v.S == "nil" {
			return Val{E: em.zero(tn.Type()).E, S: em.sortOf(tn.Type()), T: tn.Type()}
		}
		if isInterface(tn.Type()) && v.S != sIface && v.T != nil {
			return env.ex.makeIface(v, v.T, tn.Type())
		}
		v.T = tn.Type()
		return v
	}
	// pure Go function of the package, inlined (unless the first argument's type has a method of that name and the
	// function's first parameter has a different type: then the method is meant)
	if fnObj, ok := env.pkg.Scope().Lookup(name).(*types.Func); ok && !env.prefersMethod(fnObj, name, x) {
		sp := env.ex.eng.Prog.Package(env.pkg)
		if f := sp.Func(fnObj.Name()); f != nil {
			if env.bound > 0 {
				env.fail("Go function %s cannot be used under a quantifier", name)
			}
			var args []Val
			for _, a := range x.Args {
				args = append(args, env.eval(a))
			}
			return env.ex.specInline(f, args, env.st)
		}
	}
	// Go method of the first argument's type, written Method(recv, args...), inlined
	if len(x.Args) >= 1 {
		recv := env.eval(x.Args[0])
		if recv.T != nil {
			for _, t := range []types.Type{recv.T, types.NewPointer(recv.T)} {
				if sel := env.ex.eng.Prog.MethodSets.MethodSet(t).Lookup(env.pkg, name); sel != nil {
					f := env.ex.eng.Prog.MethodValue(sel)
					if f == nil || f.Blocks == nil {
						continue
					}
					if env.bound > 0 {
						env.fail("Go method %s cannot be used under a quantifier", name)
					}
					args := []Val{recv}
					for _, a := range x.Args[1:] {
						args = append(args, env.eval(a))
					}
					return env.ex.specInline(f, args, env.st)
				}
			}
		}
	}
	env.fail("unknown function %s", name)
	return Val{}
}

func (env *Env) prefersMethod(fnObj *types.Func, name string, x *CCall) bool {
	if len(x.Args) == 0 {
		return false
	}
	sig := fnObj.Type().(*types.Signature)
	recv := env.eval(x.Args[0])
	if recv.T == nil {
		return false
	}
	if sig.Params().Len() == len(x.Args) && types.Identical(sig.Params().At(0).Type(), recv.T) {
		return false
	}
	for _, t := range []types.Type{recv.T, types.NewPointer(recv.T)} {
		if env.ex.eng.Prog.MethodSets.MethodSet(t).Lookup(env.pkg, name) != nil {
			return true
		}
	}
	return false
}

func (env *Env) specCall(sf *SpecFunc, argExprs []CExpr) Val {
	em := env.em()
	if len(argExprs) != len(sf.Params) {
		env.fail("spec %s: %d arguments, want %d", sf.Name, len(argExprs), len(sf.Params))
	}
	spkg := env.pkg
	if sf.Pkg != "" && sf.Pkg != env.pkg.Path() {
		if p := env.ex.eng.typesPkg(sf.Pkg); p != nil {
			spkg = p
		}
	}
	tenv := *env
	tenv.pkg = spkg
	var args []Val
	for i, a := range argExprs {
		v := env.eval(a)
		pt := tenv.resolveType(sf.Params[i].Type)
		if v.S == "nil" {
			v = Val{E: em.zero(pt).E, S: em.sortOf(pt), T: pt}
		}
		want := em.sortOf(pt)
		if v.S == "VStr" && want == sStr {
			// ok: virtual strings flow into spec functions with bodies only
		} else if v.S != want {
			env.fail("spec %s: argument %d has sort %s, want %s", sf.Name, i, v.S, want)
		}
		v.T = pt
		args = append(args, v)
	}
	if sf.Body == nil {
		var sorts, terms []string
		for i, a := range args {
			if a.S == "VStr" {
				env.fail("virtual string passed to uninterpreted function %s", sf.Name)
			}
			sorts = append(sorts, em.sortOf(tenv.resolveType(sf.Params[i].Type)))
			terms = append(terms, a.E)
		}
		rt := tenv.resolveType(sf.Ret)
		uname := "u_" + sanitize(sf.Name)
		app := env.ex.uf(uname, sorts, em.sortOf(rt), terms...)
		// results of an uninterpreted function live in the range of its declared Go result type
		if lo, hi := intRange(rt); lo != nil && em.sortOf(rt) == sInt {
			if len(sorts) == 0 {
				em.global(fmt.Sprintf("(assert (and (<= %s %s) (<= %s %s)))", smtInt(lo), uname, uname, smtInt(hi)))
			} else {
				var bs, as []string
				for i, s := range sorts {
					bs = append(bs, fmt.Sprintf("(a%d %s)", i, s))
					as = append(as, fmt.Sprintf("a%d", i))
				}
				call := "(" + uname + " " + strings.Join(as, " ") + ")"
				em.global(fmt.Sprintf("(assert (forall (%s) (! (and (<= %s %s) (<= %s %s)) :pattern (%s))))", strings.Join(bs, " "), smtInt(lo), call, call, smtInt(hi), call))
			}
		}
		return Val{E: app, S: em.sortOf(rt), T: rt}
	}
	if sf.Math {
		return env.mathCall(sf, args, &tenv)
	}
	inner := &Env{ex: env.ex, st: env.st, old: env.old, vars: map[string]Val{}, fn: nil, pkg: spkg, bound: env.bound, where: env.where + " in " + sf.Name}
	for i, p := range sf.Params {
		inner.vars[p.Name] = args[i]
	}
	r := inner.eval(sf.Body)
	if sf.Ret != "" {
		rt := tenv.resolveType(sf.Ret)
		if r.S == sInt || r.S == sBool {
			r.T = rt
		}
	}
	return r
}
