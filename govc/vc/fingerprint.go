package vc

import (
	"crypto/sha256"
	"fmt"
	"sort"
	"strings"

	"golang.org/x/tools/go/ssa"
)

// Fingerprint describes the shape of a function's SSA code modulo the names of its local variables.
type Fingerprint struct {
	Shape  string   `json:"shape"`
	Locals []string `json:"locals"` // names of the local variable cells in allocation order
}

func FingerprintOf(fn *ssa.Function) Fingerprint {
	var b strings.Builder
	var locals []string
	for _, blk := range fn.Blocks {
		fmt.Fprintf(&b, "B%d:", blk.Index)
		for _, in := range blk.Instrs {
			switch i := in.(type) {
			case *ssa.DebugRef:
				continue
			case *ssa.Alloc:
				locals = append(locals, i.Comment)
				fmt.Fprintf(&b, "alloc %v heap=%v;", i.Type(), i.Heap)
				continue
			}
			s := in.String()
			if v, ok := in.(ssa.Value); ok {
				s = v.Name() + "=" + s
			}
			b.WriteString(s)
			b.WriteByte(';')
		}
	}
	for _, an := range fn.AnonFuncs {
		f := FingerprintOf(an)
		b.WriteString("anon{" + f.Shape + "}")
	}
	sum := sha256.Sum256([]byte(b.String()))
	return Fingerprint{Shape: fmt.Sprintf("%x", sum[:12]), Locals: locals}
}

// ApplyFingerprints compares the functions under contract with their recorded fingerprints. For a function whose
// shape is unchanged but whose local names differ (a pure renaming), contract identifiers are mapped to the new
// names. It returns the keys of functions whose shape differs from the record (their code has changed).
func (eng *Engine) ApplyFingerprints(recorded map[string]Fingerprint, keys []string) (changed map[string]bool) {
	changed = map[string]bool{}
	eng.Renames = map[string]map[string]string{}
	sort.Strings(keys)
	for _, k := range keys {
		rec, ok := recorded[k]
		if !ok {
			continue
		}
		fn := eng.FindFunc(k)
		if fn == nil {
			changed[k] = true
			continue
		}
		cur := FingerprintOf(fn)
		if cur.Shape != rec.Shape {
			changed[k] = true
			continue
		}
		if len(cur.Locals) == len(rec.Locals) {
			m := map[string]string{}
			for i := range cur.Locals {
				if cur.Locals[i] != rec.Locals[i] && rec.Locals[i] != "" {
					m[rec.Locals[i]] = cur.Locals[i]
				}
			}
			if len(m) > 0 {
				eng.Renames[k] = m
			}
		}
	}
	return changed
}
