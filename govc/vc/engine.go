package vc

import (
	"bytes"
	"fmt"
	"go/ast"
	"go/printer"
	"go/token"
	"go/types"
	"os"
	"path/filepath"
	"sort"
	"strings"

	"golang.org/x/tools/go/ast/astutil"
	"golang.org/x/tools/go/packages"
	"golang.org/x/tools/go/ssa"
	"golang.org/x/tools/go/ssa/ssautil"
)

type Engine struct {
	Fset   *token.FileSet
	Prog   *ssa.Program
	Pkgs   []*packages.Package
	byPath map[string]*packages.Package
	CS     *ContractSet
	Repo   string
	Scope  map[string]bool // package paths whose functions may be inlined
	Errors []string
	Missing map[string][]string
	requireTermination bool
	DeepVacuity bool // thorough tier: a reachability guard after every call of a function under contract
	varScopes map[*ssa.Alloc]*types.Scope
	instances map[string]*ssa.Function // instances of generic functions by key
	callGraphSCC map[string]int
	KnownFindings map[string][]KFExcept
	Renames map[string]map[string]string // function key -> recorded local name -> current local name
}

func (eng *Engine) errorf(f string, a ...any) {
	msg := fmt.Sprintf(f, a...)
	for _, e := range eng.Errors {
		if e == msg {
			return
		}
	}
	eng.Errors = append(eng.Errors, msg)
}

func (eng *Engine) missing(key string, pos token.Position) {
	if eng.Missing == nil {
		eng.Missing = map[string][]string{}
	}
	eng.Missing[key] = append(eng.Missing[key], pos.String())
}

// Load loads the given package patterns from repo (with -tags verif) and builds SSA in naive form.
func Load(repo string, patterns []string, overlay map[string][]byte) (*Engine, error) {
	cfg := &packages.Config{Mode: packages.LoadAllSyntax, Dir: repo, BuildFlags: []string{"-tags", "verif"},
		Env:     append(os.Environ(), "GOFLAGS=-mod=mod", "GOPROXY=off", "GOSUMDB=off", "GOTOOLCHAIN=local"),
		Overlay: overlay}
	pkgs, err := packages.Load(cfg, patterns...)
	if err != nil {
		return nil, err
	}
	var errs []string
	packages.Visit(pkgs, nil, func(p *packages.Package) {
		for _, e := range p.Errors {
			errs = append(errs, e.Error())
		}
	})
	if len(errs) > 0 {
		return nil, fmt.Errorf("package errors: %s", strings.Join(errs, "; "))
	}
	prog, _ := ssautil.AllPackages(pkgs, ssa.NaiveForm|ssa.GlobalDebug|ssa.InstantiateGenerics)
	prog.Build()
	eng := &Engine{Fset: prog.Fset, Prog: prog, Pkgs: pkgs, byPath: map[string]*packages.Package{}, CS: NewContractSet(), Repo: repo,
		Scope: map[string]bool{}, varScopes: map[*ssa.Alloc]*types.Scope{}}
	packages.Visit(pkgs, nil, func(p *packages.Package) { eng.byPath[p.PkgPath] = p })
	for _, p := range pkgs {
		eng.Scope[p.PkgPath] = true
	}
	return eng, nil
}

func (eng *Engine) typesPkg(path string) *types.Package {
	if p, ok := eng.byPath[path]; ok {
		return p.Types
	}
	return nil
}

func (eng *Engine) typesPkgOr(path string, def *types.Package) *types.Package {
	if p := eng.typesPkg(path); p != nil {
		return p
	}
	return def
}

func (eng *Engine) inScope(f *ssa.Function) bool {
	if f.Pkg == nil {
		if f.Origin() != nil && f.Origin().Pkg != nil {
			return eng.Scope[f.Origin().Pkg.Pkg.Path()]
		}
		if f.Parent() != nil {
			return eng.inScope(f.Parent())
		}
		return false
	}
	return eng.Scope[f.Pkg.Pkg.Path()]
}

// LoadContracts reads zz_contracts_verif.go of every in-scope package plus extra files.
func (eng *Engine) LoadContracts(extra map[string]string) error {
	for _, p := range eng.Pkgs {
		if len(p.GoFiles) == 0 {
			continue
		}
		dir := filepath.Dir(p.GoFiles[0])
		f := filepath.Join(dir, "zz_contracts_verif.go")
		if _, err := os.Stat(f); err == nil {
			if err := eng.CS.LoadFile(f, p.PkgPath); err != nil {
				return err
			}
		}
	}
	var keys []string
	for f := range extra {
		keys = append(keys, f)
	}
	sort.Strings(keys)
	for _, f := range keys {
		if err := eng.CS.LoadFile(f, extra[f]); err != nil {
			return err
		}
	}
	eng.ExpandTables()
	return nil
}

// FindFunc resolves a contract key to an SSA function.
func (eng *Engine) FindFunc(key string) *ssa.Function {
	for _, sp := range eng.Prog.AllPackages() {
		if !strings.HasPrefix(key, sp.Pkg.Path()+".") {
			continue
		}
		rest := key[len(sp.Pkg.Path())+1:]
		if strings.Contains(rest, "/") {
			continue
		}
		if strings.HasPrefix(rest, "(") {
			// method
			end := strings.Index(rest, ").")
			if end < 0 {
				continue
			}
			recv, name := rest[1:end], rest[end+2:]
			ptr := strings.HasPrefix(recv, "*")
			recv = strings.TrimPrefix(recv, "*")
			tn, ok := sp.Pkg.Scope().Lookup(recv).(*types.TypeName)
			if !ok {
				continue
			}
			var t types.Type = tn.Type()
			if ptr {
				t = types.NewPointer(t)
			}
			sel := eng.Prog.MethodSets.MethodSet(t).Lookup(sp.Pkg, name)
			if sel == nil {
				continue
			}
			return eng.Prog.MethodValue(sel)
		}
		if name, sub, ok := strings.Cut(rest, "$"); ok {
			f := sp.Func(name)
			if f == nil {
				continue
			}
			for _, an := range f.AnonFuncs {
				if an.Name() == name+"$"+sub {
					return an
				}
			}
			continue
		}
		if f := sp.Func(rest); f != nil {
			return f
		}
		if gname, _, ok := strings.Cut(rest, "["); ok {
			// an instance of a generic function, created because the program references it
			if g := sp.Func(gname); g != nil {
				return eng.findInstance(g, rest)
			}
		}
	}
	return nil
}

func (eng *Engine) scopeOfVar(fn *ssa.Function, a *ssa.Alloc) *types.Scope {
	if sc, ok := eng.varScopes[a]; ok {
		return sc
	}
	var sc *types.Scope
	if fn.Pkg != nil {
		if p := eng.byPath[fn.Pkg.Pkg.Path()]; p != nil && p.TypesInfo != nil {
			for id, obj := range p.TypesInfo.Defs {
				if obj != nil && id.Pos() == a.Pos() && id.Name == a.Comment {
					if v, ok := obj.(*types.Var); ok {
						sc = v.Parent()
					}
					break
				}
			}
			if sc == nil {
				sc = implicitVarScope(p.TypesInfo, fn, a)
			}
		}
	}
	eng.varScopes[a] = sc
	return sc
}

// snippet returns a compact source text of the expression at pos (stable obligation labels).
func (eng *Engine) snippet(pos token.Pos) string {
	if pos == token.NoPos {
		return ""
	}
	tf := eng.Fset.File(pos)
	if tf == nil {
		return ""
	}
	for _, p := range eng.byPath {
		for _, f := range p.Syntax {
			if eng.Fset.File(f.Pos()) != tf {
				continue
			}
			path, _ := astutil.PathEnclosingInterval(f, pos, pos)
			for _, n := range path {
				switch n.(type) {
				case *ast.IndexExpr, *ast.SliceExpr, *ast.SelectorExpr, *ast.StarExpr, *ast.TypeAssertExpr, *ast.CallExpr, *ast.BinaryExpr,
					*ast.UnaryExpr, *ast.AssignStmt, *ast.IncDecStmt, *ast.CompositeLit, *ast.RangeStmt, *ast.ReturnStmt, *ast.ExprStmt, *ast.KeyValueExpr:
					if rs, ok := n.(*ast.RangeStmt); ok {
						var buf bytes.Buffer
						printer.Fprint(&buf, eng.Fset, rs.X)
						return "range " + compact(buf.String())
					}
					var buf bytes.Buffer
					printer.Fprint(&buf, eng.Fset, n)
					return compact(buf.String())
				}
			}
			return ""
		}
	}
	return ""
}

func compact(s string) string {
	s = strings.Join(strings.Fields(s), " ")
	if len(s) > 60 {
		s = s[:60] + "…"
	}
	return s
}

// sameSCC: conservative — two functions under contract are considered mutually recursive when both declare measures
// and the callee can reach the caller in the static call graph.
func (eng *Engine) sameSCC(a, b string) bool {
	if a == b {
		return true
	}
	fa, fb := eng.FindFunc(a), eng.FindFunc(b)
	if fa == nil || fb == nil {
		return true // interface method contracts: conservatively yes
	}
	return eng.reaches(fb, fa, map[*ssa.Function]bool{})
}

func (eng *Engine) reaches(from, to *ssa.Function, seen map[*ssa.Function]bool) bool {
	if from == to {
		return true
	}
	if seen[from] || from.Blocks == nil {
		return false
	}
	seen[from] = true
	for _, b := range from.Blocks {
		for _, in := range b.Instrs {
			if c, ok := in.(ssa.CallInstruction); ok {
				if c.Common().IsInvoke() {
					// any implementation: conservatively assume reachable if 'to' is a method with the same name
					if to.Signature.Recv() != nil && to.Name() == c.Common().Method.Name() {
						return true
					}
					continue
				}
				if f := c.Common().StaticCallee(); f != nil && eng.reaches(f, to, seen) {
					return true
				}
			}
		}
	}
	return false
}

// InitContract builds the synthetic contract of a package initialiser: its postconditions are the package's ginvs.
// It also checks syntactically that the globals mentioned by ginvs are written only by the initialiser.
func (eng *Engine) InitContract(pkgPath string) (*ssa.Function, *FuncContract) {
	var invs []*Lemma
	for _, gi := range eng.CS.GInvs {
		if gi.Pkg == pkgPath {
			invs = append(invs, gi)
		}
	}
	if len(invs) == 0 {
		return nil, nil
	}
	var sp *ssa.Package
	for _, p := range eng.Prog.AllPackages() {
		if p.Pkg.Path() == pkgPath {
			sp = p
		}
	}
	if sp == nil {
		eng.errorf("ginv: package %s not loaded", pkgPath)
		return nil, nil
	}
	initFn := sp.Func("init")
	fc := &FuncContract{Key: "init", Pkg: pkgPath, Options: map[string]string{}, File: invs[0].File, Line: invs[0].Line}
	fc.Assigns = []*Clause{{Kind: "assigns", Exprs: []CExpr{&CIdent{Name: "everything"}}}}
	globals := map[string]bool{}
	for _, gi := range invs {
		fc.Ensures = append(fc.Ensures, &Clause{Kind: "ensures", Text: gi.Text, Label: gi.Name, Expr: gi.Expr, File: gi.File, Line: gi.Line})
		collectIdents(gi.Expr, func(n string) {
			if _, ok := sp.Members[n].(*ssa.Global); ok {
				globals[n] = true
			}
		})
	}
	// frame scan: stores to these globals only inside init
	var scan func(f *ssa.Function)
	seen := map[*ssa.Function]bool{}
	scan = func(f *ssa.Function) {
		if seen[f] {
			return
		}
		seen[f] = true
		for _, b := range f.Blocks {
			for _, in := range b.Instrs {
				var addr ssa.Value
				switch i := in.(type) {
				case *ssa.Store:
					addr = i.Addr
				case *ssa.MapUpdate:
					if u, ok := i.Map.(*ssa.UnOp); ok {
						addr = u.X
					}
				}
				for addr != nil {
					switch a := addr.(type) {
					case *ssa.Global:
						if globals[a.Name()] && a.Pkg == sp && f != initFn && !(strings.HasPrefix(f.Name(), "init#") && f.Parent() == nil) {
							eng.errorf("ginv: global %s.%s is written outside the package initialiser (in %s)", pkgPath, a.Name(), f)
						}
						addr = nil
					case *ssa.FieldAddr:
						addr = a.X
					case *ssa.IndexAddr:
						addr = a.X
					default:
						addr = nil
					}
				}
				// address of the global escaping (passed around) is not tracked: flag it
				if c, ok := in.(ssa.CallInstruction); ok && f != initFn {
					for _, a := range c.Common().Args {
						if g, ok := a.(*ssa.Global); ok && globals[g.Name()] && g.Pkg == sp {
							eng.errorf("ginv: address of global %s.%s escapes in %s", pkgPath, g.Name(), f)
						}
					}
				}
			}
		}
		for _, an := range f.AnonFuncs {
			scan(an)
		}
	}
	for _, m := range sp.Members {
		if f, ok := m.(*ssa.Function); ok {
			scan(f)
		}
		if t, ok := m.(*ssa.Type); ok {
			for _, recv := range []types.Type{t.Type(), types.NewPointer(t.Type())} {
				ms := eng.Prog.MethodSets.MethodSet(recv)
				for i := 0; i < ms.Len(); i++ {
					if f := eng.Prog.MethodValue(ms.At(i)); f != nil && f.Pkg == sp {
						scan(f)
					}
				}
			}
		}
	}
	return initFn, fc
}

func collectIdents(e CExpr, f func(string)) {
	switch x := e.(type) {
	case *CIdent:
		f(x.Name)
	case *CSel:
		collectIdents(x.X, f)
	case *CCall:
		collectIdents(x.Fun, f)
		for _, a := range x.Args {
			collectIdents(a, f)
		}
	case *CIndex:
		collectIdents(x.X, f)
		collectIdents(x.I, f)
	case *CSlice:
		collectIdents(x.X, f)
		if x.Lo != nil {
			collectIdents(x.Lo, f)
		}
		if x.Hi != nil {
			collectIdents(x.Hi, f)
		}
	case *CUnary:
		collectIdents(x.X, f)
	case *CBinary:
		collectIdents(x.X, f)
		collectIdents(x.Y, f)
	case *CCond:
		collectIdents(x.C, f)
		collectIdents(x.A, f)
		collectIdents(x.B, f)
	case *CQuant:
		if x.Lo != nil {
			collectIdents(x.Lo, f)
			collectIdents(x.Hi, f)
		}
		collectIdents(x.Body, f)
	case *CTypeAssert:
		collectIdents(x.X, f)
	}
}
