package vc

import (
	"fmt"
	"go/types"
	"sort"
	"strings"

	"golang.org/x/tools/go/ssa"
)

// State is the symbolic store at a program point.
type State struct {
	cells map[*ssa.Alloc]Val
	heaps map[string]string // heap name -> current SMT term
	ghost map[string]Val
}

func newState() *State {
	return &State{cells: map[*ssa.Alloc]Val{}, heaps: map[string]string{}, ghost: map[string]Val{}}
}

func (s *State) clone() *State {
	n := newState()
	for k, v := range s.cells {
		n.cells[k] = v
	}
	for k, v := range s.heaps {
		n.heaps[k] = v
	}
	for k, v := range s.ghost {
		n.ghost[k] = v
	}
	return n
}

// heap sorts registry lives in the emitter
func (em *Emitter) heapSort(name string) string {
	return em.heapSorts()[name]
}

func (em *Emitter) heapSorts() map[string]string {
	if em.hsorts == nil {
		em.hsorts = map[string]string{}
	}
	return em.hsorts
}

func (em *Emitter) heapGet(st *State, name, sort string) string {
	em.heapSorts()[name] = sort
	if t, ok := st.heaps[name]; ok {
		return t
	}
	return em.globalConst(name+"!0", sort)
}

func (em *Emitter) heapSet(st *State, name, sort, term string) {
	em.heapSorts()[name] = sort
	st.heaps[name] = em.define(name, sort, term)
}

func structKey(t types.Type) string {
	if p, ok := t.Underlying().(*types.Pointer); ok {
		t = p.Elem()
	}
	if _, named := t.(*types.Named); named {
		return typeName(t)
	}
	if a, ok := t.(*types.Alias); ok {
		return structKey(types.Unalias(a))
	}
	return "anon_" + sanitize(t.Underlying().String())
}

func fieldHeapName(structT types.Type, i int) string {
	st := structT.Underlying().(*types.Struct)
	return fmt.Sprintf("H_%s_%s", structKey(structT), st.Field(i).Name())
}

func elemHeapName(elem types.Type) string { return "A_" + typeName(canon(elem)) }
func boxHeapName(t types.Type) string    { return "B_" + typeName(canon(t)) }

func canon(t types.Type) types.Type {
	t = types.Unalias(t)
	if b, ok := t.(*types.Basic); ok {
		switch b.Kind() {
		case types.Uint8:
			return types.Typ[types.Uint8]
		case types.Int32:
			return types.Typ[types.Int32]
		}
	}
	return t
}

// mergeStates merges states along edges; conds[i] is the edge condition of states[i].
func (em *Emitter) mergeStates(states []*State, conds []string) *State {
	if len(states) == 1 {
		return states[0].clone()
	}
	out := newState()
	// cells
	cellSet := map[*ssa.Alloc]bool{}
	for _, s := range states {
		for c := range s.cells {
			cellSet[c] = true
		}
	}
	var cells []*ssa.Alloc
	for c := range cellSet {
		cells = append(cells, c)
	}
	sort.Slice(cells, func(i, j int) bool { return cells[i].Pos() < cells[j].Pos() || (cells[i].Pos() == cells[j].Pos() && cells[i].Name() < cells[j].Name()) })
	for _, c := range cells {
		var vs []Val
		all := true
		for _, s := range states {
			v, ok := s.cells[c]
			if !ok {
				all = false
				break
			}
			vs = append(vs, v)
		}
		if !all {
			continue // cell not live on every path: dead at the merge point
		}
		out.cells[c] = em.mergeVals(c.Comment, vs, conds)
	}
	heapSet := map[string]bool{}
	for _, s := range states {
		for h := range s.heaps {
			heapSet[h] = true
		}
	}
	var hs []string
	for h := range heapSet {
		hs = append(hs, h)
	}
	sort.Strings(hs)
	for _, h := range hs {
		srt := em.heapSorts()[h]
		var ts []string
		same := true
		for _, s := range states {
			t := em.heapGet(s, h, srt)
			ts = append(ts, t)
			if t != ts[0] {
				same = false
			}
		}
		if same {
			out.heaps[h] = ts[0]
			continue
		}
		term := ts[len(ts)-1]
		for i := len(ts) - 2; i >= 0; i-- {
			term = ite(conds[i], ts[i], term)
		}
		out.heaps[h] = em.define(h, srt, term)
	}
	gset := map[string]bool{}
	for _, s := range states {
		for g := range s.ghost {
			gset[g] = true
		}
	}
	var gs []string
	for g := range gset {
		gs = append(gs, g)
	}
	sort.Strings(gs)
	for _, g := range gs {
		var vs []Val
		ok := true
		for _, s := range states {
			v, has := s.ghost[g]
			if !has {
				ok = false
				break
			}
			vs = append(vs, v)
		}
		if ok {
			out.ghost[g] = em.mergeVals("ghost_"+g, vs, conds)
		}
	}
	return out
}

func (em *Emitter) mergeVals(name string, vs []Val, conds []string) Val {
	same := true
	for _, v := range vs {
		if v.E != vs[0].E || v.P != vs[0].P || v.Fn != vs[0].Fn {
			same = false
		}
	}
	if same {
		return vs[0]
	}
	for _, v := range vs {
		if v.P != nil || v.Fn != nil || v.E == "" {
			// cannot merge meta-level values: poison
			return Val{E: "", S: vs[0].S, T: vs[0].T, P: nil}
		}
	}
	term := vs[len(vs)-1].E
	for i := len(vs) - 2; i >= 0; i-- {
		term = ite(conds[i], vs[i].E, term)
	}
	r := vs[0]
	r.E = em.define(name, r.S, term)
	return r
}

func isNumeral(s string) bool {
	if s == "" {
		return false
	}
	for _, c := range s {
		if c < '0' || c > '9' {
			return false
		}
	}
	return true
}

func add(a, b string) string {
	if b == "0" {
		return a
	}
	if a == "0" {
		return b
	}
	if isNumeral(a) && isNumeral(b) && len(a) < 15 && len(b) < 15 {
		var x, y int64
		fmt.Sscan(a, &x)
		fmt.Sscan(b, &y)
		return fmt.Sprint(x + y)
	}
	return "(+ " + a + " " + b + ")"
}

func sub(a, b string) string {
	if b == "0" {
		return a
	}
	return "(- " + a + " " + b + ")"
}

func selectT(arr, idx string) string { return "(select " + arr + " " + idx + ")" }
func storeT(arr, idx, v string) string {
	return "(store " + arr + " " + idx + " " + v + ")"
}

func joinSp(parts []string) string { return strings.Join(parts, " ") }
