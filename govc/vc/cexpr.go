package vc

// Contract expression language: Go expression syntax plus
//   a ==> b, a <==> b, c ? a : b, old(e), forall i in lo..hi :: e, exists i in lo..hi :: e,
//   forall x T :: e (unbounded, x of Go type T), x.(T), istype(x, T)
// Parsed with a small Pratt parser on top of go/scanner tokens.

import (
	"fmt"
	"go/scanner"
	"go/token"
	"strings"
)

type CExpr interface{ String() string }

type (
	CIdent  struct{ Name string }
	CInt    struct{ V string }
	CChar   struct{ V int64 }
	CStr    struct{ V string }
	CBool   struct{ V bool }
	CNil    struct{}
	CSel    struct {
		X    CExpr
		Name string
	}
	CCall struct {
		Fun  CExpr
		Args []CExpr
	}
	CIndex struct{ X, I CExpr }
	CSlice struct{ X, Lo, Hi CExpr }
	CUnary struct {
		Op string
		X  CExpr
	}
	CBinary struct {
		Op   string
		X, Y CExpr
	}
	CCond   struct{ C, A, B CExpr }
	CQuant  struct {
		Forall bool
		Var    string
		Lo, Hi CExpr  // nil if typed quantifier
		Type   string // Go type text for typed quantifier
		Body   CExpr
	}
	CTypeAssert struct {
		X    CExpr
		Type string
	}
	CType struct{ Text string } // a type used as argument (istype, conversions of composite types)
)

func (e *CIdent) String() string { return e.Name }
func (e *CInt) String() string   { return e.V }
func (e *CChar) String() string  { return fmt.Sprintf("%d", e.V) }
func (e *CStr) String() string   { return fmt.Sprintf("%q", e.V) }
func (e *CBool) String() string  { return fmt.Sprint(e.V) }
func (e *CNil) String() string   { return "nil" }
func (e *CSel) String() string   { return e.X.String() + "." + e.Name }
func (e *CCall) String() string {
	var a []string
	for _, x := range e.Args {
		a = append(a, x.String())
	}
	return e.Fun.String() + "(" + strings.Join(a, ", ") + ")"
}
func (e *CIndex) String() string { return e.X.String() + "[" + e.I.String() + "]" }
func (e *CSlice) String() string {
	lo, hi := "", ""
	if e.Lo != nil {
		lo = e.Lo.String()
	}
	if e.Hi != nil {
		hi = e.Hi.String()
	}
	return e.X.String() + "[" + lo + ":" + hi + "]"
}
func (e *CUnary) String() string  { return e.Op + e.X.String() }
func (e *CBinary) String() string { return "(" + e.X.String() + " " + e.Op + " " + e.Y.String() + ")" }
func (e *CCond) String() string {
	return "(" + e.C.String() + " ? " + e.A.String() + " : " + e.B.String() + ")"
}
func (e *CQuant) String() string {
	q := "exists"
	if e.Forall {
		q = "forall"
	}
	if e.Lo != nil {
		return fmt.Sprintf("(%s %s in %s..%s :: %s)", q, e.Var, e.Lo, e.Hi, e.Body)
	}
	return fmt.Sprintf("(%s %s %s :: %s)", q, e.Var, e.Type, e.Body)
}
func (e *CTypeAssert) String() string { return e.X.String() + ".(" + e.Type + ")" }
func (e *CType) String() string       { return e.Text }

type ctok struct {
	tok token.Token
	lit string
	pos int // byte offset in src
	end int
	op  string // for synthesized operators ==> <==> .. :: ?
}

type cparser struct {
	src  string
	toks []ctok
	i    int
}

func lexContract(src string) ([]ctok, error) {
	fset := token.NewFileSet()
	f := fset.AddFile("contract", -1, len(src))
	var s scanner.Scanner
	var errs []string
	s.Init(f, []byte(src), func(pos token.Position, msg string) {
		if !strings.Contains(msg, "illegal character U+003F") { // '?'
			errs = append(errs, fmt.Sprintf("%d: %s", pos.Offset, msg))
		}
	}, 0)
	var toks []ctok
	for {
		pos, tok, lit := s.Scan()
		if tok == token.EOF {
			break
		}
		off := f.Offset(pos)
		if tok == token.SEMICOLON && lit == "\n" {
			continue
		}
		t := ctok{tok: tok, lit: lit, pos: off}
		switch {
		case lit != "":
			t.end = off + len(lit)
		default:
			t.end = off + len(tok.String())
		}
		if tok == token.ILLEGAL && strings.HasPrefix(src[off:], "?") {
			t.op = "?"
			t.end = off + 1
		}
		toks = append(toks, t)
	}
	if len(errs) > 0 {
		return nil, fmt.Errorf("lex: %s", strings.Join(errs, "; "))
	}
	// synthesize multi-token operators
	var out []ctok
	adj := func(a, b ctok) bool { return a.end == b.pos }
	for i := 0; i < len(toks); i++ {
		t := toks[i]
		// <==>  lexes as  <= , == , >   or  <= = >  ... ; handle textually
		if strings.HasPrefix(src[t.pos:], "<==>") {
			j := i
			for j < len(toks) && toks[j].pos < t.pos+4 {
				j++
			}
			out = append(out, ctok{tok: token.ILLEGAL, op: "<==>", pos: t.pos, end: t.pos + 4})
			i = j - 1
			continue
		}
		if strings.HasPrefix(src[t.pos:], "==>") && t.tok == token.EQL {
			j := i
			for j < len(toks) && toks[j].pos < t.pos+3 {
				j++
			}
			out = append(out, ctok{tok: token.ILLEGAL, op: "==>", pos: t.pos, end: t.pos + 3})
			i = j - 1
			continue
		}
		if t.tok == token.COLON && i+1 < len(toks) && toks[i+1].tok == token.COLON && adj(t, toks[i+1]) {
			out = append(out, ctok{tok: token.ILLEGAL, op: "::", pos: t.pos, end: t.pos + 2})
			i++
			continue
		}
		if t.tok == token.PERIOD && i+1 < len(toks) && toks[i+1].tok == token.PERIOD && adj(t, toks[i+1]) {
			out = append(out, ctok{tok: token.ILLEGAL, op: "..", pos: t.pos, end: t.pos + 2})
			i++
			continue
		}
		out = append(out, t)
	}
	return out, nil
}

// "0..n" would lex "0." as a float: put spaces around the range operator first.
func normRange(src string) string {
	if !strings.Contains(src, "..") {
		return src
	}
	var b strings.Builder
	quote := byte(0)
	for i := 0; i < len(src); i++ {
		c := src[i]
		switch {
		case quote != 0:
			b.WriteByte(c)
			if c == '\\' && quote != '`' && i+1 < len(src) {
				i++
				b.WriteByte(src[i])
			} else if c == quote {
				quote = 0
			}
		case c == '"' || c == '\'' || c == '`':
			quote = c
			b.WriteByte(c)
		case c == '.' && i+1 < len(src) && src[i+1] == '.':
			b.WriteString(" .. ")
			i++
		default:
			b.WriteByte(c)
		}
	}
	return b.String()
}

func ParseCExpr(src string) (e CExpr, err error) {
	src = normRange(src)
	toks, err := lexContract(src)
	if err != nil {
		return nil, err
	}
	p := &cparser{src: src, toks: toks}
	defer func() {
		if r := recover(); r != nil {
			if pe, ok := r.(parseErr); ok {
				err = fmt.Errorf("%s in %q", string(pe), src)
				return
			}
			panic(r)
		}
	}()
	e = p.expr(0)
	if p.i < len(p.toks) {
		p.fail("unexpected %q", p.cur().text())
	}
	return e, nil
}

// ParseCExprList parses comma separated expressions.
func ParseCExprList(src string) (es []CExpr, err error) {
	src = normRange(src)
	toks, err := lexContract(src)
	if err != nil {
		return nil, err
	}
	p := &cparser{src: src, toks: toks}
	defer func() {
		if r := recover(); r != nil {
			if pe, ok := r.(parseErr); ok {
				err = fmt.Errorf("%s in %q", string(pe), src)
				return
			}
			panic(r)
		}
	}()
	for {
		es = append(es, p.expr(0))
		if p.i < len(p.toks) && p.cur().tok == token.COMMA {
			p.i++
			continue
		}
		break
	}
	if p.i < len(p.toks) {
		p.fail("unexpected %q", p.cur().text())
	}
	return es, nil
}

type parseErr string

func (p *cparser) fail(f string, a ...any) { panic(parseErr(fmt.Sprintf(f, a...))) }

func (t ctok) text() string {
	if t.op != "" {
		return t.op
	}
	if t.lit != "" {
		return t.lit
	}
	return t.tok.String()
}

func (p *cparser) cur() ctok {
	if p.i >= len(p.toks) {
		return ctok{tok: token.EOF}
	}
	return p.toks[p.i]
}
func (p *cparser) is(s string) bool { return p.i < len(p.toks) && p.cur().text() == s && p.cur().tok != token.STRING && p.cur().tok != token.CHAR }
func (p *cparser) eat(s string) {
	if !p.is(s) {
		p.fail("expected %q, got %q", s, p.cur().text())
	}
	p.i++
}

// precedence (low to high): <==> 1, ==> 2 (right assoc), ?: 3, || 4, && 5, comparison 6, + - | ^ 7, * / % << >> & &^ 8
func binPrec(op string) int {
	switch op {
	case "<==>":
		return 1
	case "==>":
		return 2
	case "?":
		return 3
	case "||":
		return 4
	case "&&":
		return 5
	case "==", "!=", "<", "<=", ">", ">=":
		return 6
	case "+", "-", "|", "^":
		return 7
	case "*", "/", "%", "<<", ">>", "&", "&^":
		return 8
	}
	return 0
}

func (p *cparser) expr(minPrec int) CExpr {
	x := p.unary()
	for {
		if p.i >= len(p.toks) {
			return x
		}
		t := p.cur()
		if t.tok == token.STRING || t.tok == token.CHAR || t.tok == token.IDENT || t.tok == token.INT {
			return x
		}
		op := t.text()
		pr := binPrec(op)
		if pr == 0 || pr < minPrec {
			return x
		}
		p.i++
		switch op {
		case "?":
			a := p.expr(0)
			p.eat(":")
			b := p.expr(pr)
			x = &CCond{x, a, b}
		case "==>":
			y := p.expr(pr) // right assoc
			x = &CBinary{op, x, y}
		default:
			y := p.expr(pr + 1)
			x = &CBinary{op, x, y}
		}
	}
}

func (p *cparser) unary() CExpr {
	t := p.cur()
	switch {
	case p.is("!"), p.is("-"), p.is("^"):
		p.i++
		return &CUnary{t.text(), p.unary()}
	case p.is("*"):
		p.i++
		return &CUnary{"*", p.unary()}
	}
	return p.postfix(p.primary())
}

func (p *cparser) typeText() string {
	// consume a Go type up to the matching ')' or ',' or '::' at depth 0; returns the source text
	start := p.cur().pos
	depth := 0
	end := start
	for p.i < len(p.toks) {
		t := p.cur()
		s := t.text()
		if depth == 0 && (s == ")" || s == "," || s == "::") && t.tok != token.STRING {
			break
		}
		if s == "(" || s == "[" || s == "{" {
			depth++
		}
		if s == ")" || s == "]" || s == "}" {
			depth--
		}
		end = t.end
		p.i++
	}
	return strings.TrimSpace(p.src[start:end])
}

func (p *cparser) primary() CExpr {
	t := p.cur()
	switch t.tok {
	case token.INT:
		p.i++
		return &CInt{t.lit}
	case token.CHAR:
		p.i++
		r, _, _, err := unquoteChar(t.lit)
		if err != nil {
			p.fail("bad char literal %s", t.lit)
		}
		return &CChar{int64(r)}
	case token.STRING:
		p.i++
		s, err := unquoteStr(t.lit)
		if err != nil {
			p.fail("bad string literal %s", t.lit)
		}
		return &CStr{s}
	case token.LPAREN:
		p.i++
		e := p.expr(0)
		p.eat(")")
		return e
	case token.IDENT:
		switch t.lit {
		case "true":
			p.i++
			return &CBool{true}
		case "false":
			p.i++
			return &CBool{false}
		case "nil":
			p.i++
			return &CNil{}
		case "forall", "exists":
			p.i++
			v := p.cur()
			if v.tok != token.IDENT {
				p.fail("quantifier variable expected")
			}
			p.i++
			q := &CQuant{Forall: t.lit == "forall", Var: v.lit}
			if p.cur().tok == token.IDENT && p.cur().lit == "in" {
				p.i++
				q.Lo = p.expr(7)
				p.eat("..")
				q.Hi = p.expr(7)
			} else {
				q.Type = p.typeText()
			}
			p.eat("::")
			q.Body = p.expr(0)
			return q
		case "istype":
			p.i++
			p.eat("(")
			x := p.expr(0)
			p.eat(",")
			ty := p.typeText()
			p.eat(")")
			return &CCall{Fun: &CIdent{"istype"}, Args: []CExpr{x, &CType{ty}}}
		}
		p.i++
		return &CIdent{t.lit}
	}
	if t.tok == token.MAP || t.tok == token.FUNC || t.tok == token.STRUCT || t.tok == token.INTERFACE {
		p.fail("type expressions only allowed inside istype/.()")
	}
	p.fail("unexpected %q", t.text())
	return nil
}

func (p *cparser) postfix(x CExpr) CExpr {
	for p.i < len(p.toks) {
		switch {
		case p.is("."):
			p.i++
			if p.is("(") {
				p.i++
				ty := p.typeText()
				p.eat(")")
				x = &CTypeAssert{x, ty}
				continue
			}
			t := p.cur()
			if t.tok != token.IDENT {
				p.fail("selector expected after '.'")
			}
			p.i++
			x = &CSel{x, t.lit}
		case p.is("("):
			p.i++
			var args []CExpr
			for !p.is(")") {
				args = append(args, p.expr(0))
				if p.is(",") {
					p.i++
				} else {
					break
				}
			}
			p.eat(")")
			x = &CCall{x, args}
		case p.is("["):
			p.i++
			var lo, hi CExpr
			if p.is(":") {
				p.i++
				if !p.is("]") {
					hi = p.expr(0)
				}
				p.eat("]")
				x = &CSlice{x, nil, hi}
				continue
			}
			lo = p.expr(0)
			if p.is(":") {
				p.i++
				if !p.is("]") {
					hi = p.expr(0)
				}
				p.eat("]")
				x = &CSlice{x, lo, hi}
				continue
			}
			p.eat("]")
			x = &CIndex{x, lo}
		default:
			return x
		}
	}
	return x
}
