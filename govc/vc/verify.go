package vc

import (
	"fmt"
	"go/token"
	"go/types"
	"sort"
	"strings"

	"golang.org/x/tools/go/ssa"
)

type loopInfo struct {
	head    *ssa.BasicBlock
	blocks  map[*ssa.BasicBlock]bool
	ordinal int
	lc      *LoopContract
	measure []string // measure at loop head (after havoc)
	headSt  *State
	entryPC string
	rangeCell *ssa.Alloc
	rangeLen  string
}

// findLoops computes natural loops (back edges b->h with h dominating b).
func findLoops(fn *ssa.Function) []*loopInfo {
	byHead := map[*ssa.BasicBlock]*loopInfo{}
	for _, b := range fn.Blocks {
		for _, s := range b.Succs {
			if s.Dominates(b) {
				li := byHead[s]
				if li == nil {
					li = &loopInfo{head: s, blocks: map[*ssa.BasicBlock]bool{s: true}}
					byHead[s] = li
				}
				// collect natural loop of back edge b->s
				stack := []*ssa.BasicBlock{b}
				for len(stack) > 0 {
					n := stack[len(stack)-1]
					stack = stack[:len(stack)-1]
					if li.blocks[n] {
						continue
					}
					li.blocks[n] = true
					stack = append(stack, n.Preds...)
				}
			}
		}
	}
	var loops []*loopInfo
	for _, li := range byHead {
		loops = append(loops, li)
	}
	sort.Slice(loops, func(i, j int) bool { return loops[i].head.Index < loops[j].head.Index })
	for i, li := range loops {
		li.ordinal = i + 1
	}
	return loops
}

func isBackEdge(from, to *ssa.BasicBlock) bool { return to.Dominates(from) }

// reverse postorder ignoring back edges
func rpo(fn *ssa.Function) []*ssa.BasicBlock {
	seen := map[*ssa.BasicBlock]bool{}
	var post []*ssa.BasicBlock
	var dfs func(b *ssa.BasicBlock)
	dfs = func(b *ssa.BasicBlock) {
		seen[b] = true
		for _, s := range b.Succs {
			if !seen[s] && !isBackEdge(b, s) {
				dfs(s)
			}
		}
		post = append(post, b)
	}
	dfs(fn.Blocks[0])
	for i, j := 0, len(post)-1; i < j; i, j = i+1, j-1 {
		post[i], post[j] = post[j], post[i]
	}
	return post
}

// modified cells and heaps in a loop
func (ex *Exec) loopMods(li *loopInfo) (cells map[*ssa.Alloc]bool, heaps map[string]bool, allHeaps bool) {
	cells = map[*ssa.Alloc]bool{}
	heaps = map[string]bool{}
	var blocks []*ssa.BasicBlock
	for b := range li.blocks {
		blocks = append(blocks, b)
	}
	visited := map[*ssa.Function]bool{}
	var scanFn func(f *ssa.Function, blocks []*ssa.BasicBlock, depth int)
	rootAlloc := func(v ssa.Value) *ssa.Alloc {
		for {
			switch x := v.(type) {
			case *ssa.Alloc:
				return x
			case *ssa.FieldAddr:
				if _, isPtrToStructInCell := x.X.(*ssa.Alloc); isPtrToStructInCell {
					v = x.X
					continue
				}
				if fa, ok := x.X.(*ssa.FieldAddr); ok {
					v = fa
					continue
				}
				if ia, ok := x.X.(*ssa.IndexAddr); ok {
					v = ia
					continue
				}
				return nil
			case *ssa.IndexAddr:
				if _, ok := x.X.(*ssa.Alloc); ok {
					v = x.X
					continue
				}
				if fa, ok := x.X.(*ssa.FieldAddr); ok {
					v = fa
					continue
				}
				if ia, ok := x.X.(*ssa.IndexAddr); ok {
					v = ia
					continue
				}
				return nil
			default:
				return nil
			}
		}
	}
	var heapOfAddr func(v ssa.Value) []string
	heapOfAddr = func(v ssa.Value) []string {
		switch x := v.(type) {
		case *ssa.FieldAddr:
			// nested value inside a heap root?
			switch inner := x.X.(type) {
			case *ssa.FieldAddr, *ssa.IndexAddr:
				if _, isArr := deref(inner.Type()).Underlying().(*types.Struct); isArr || true {
					// struct value embedded in another root: the root decides
					if fa, ok := inner.(*ssa.FieldAddr); ok {
						if _, ok := deref(fa.Type()).Underlying().(*types.Struct); ok {
							return heapOfAddr(fa)
						}
					}
					if ia, ok := inner.(*ssa.IndexAddr); ok {
						return heapOfAddr(ia)
					}
				}
			}
			return []string{ex.regField(deref(x.X.Type()), x.Field)}
		case *ssa.IndexAddr:
			switch xt := x.X.Type().Underlying().(type) {
			case *types.Slice:
				return []string{ex.regElem(xt.Elem())}
			case *types.Pointer:
				if fa, ok := x.X.(*ssa.FieldAddr); ok {
					return heapOfAddr(fa)
				}
				return []string{ex.regElem(xt.Elem().Underlying().(*types.Array).Elem())}
			}
		case *ssa.Global:
			return []string{ex.regGlobal(x)}
		}
		t := deref(v.Type())
		if t == nil {
			return nil
		}
		return ex.regObject(t)
	}
	scanFn = func(f *ssa.Function, blocks []*ssa.BasicBlock, depth int) {
		for _, b := range blocks {
			for _, in := range b.Instrs {
				switch i := in.(type) {
				case *ssa.Store:
					if a := rootAlloc(i.Addr); a != nil && !a.Heap {
						if f == ex.fn {
							cells[a] = true
						}
						continue
					}
					for _, h := range heapOfAddr(i.Addr) {
						heaps[h] = true
					}
				case *ssa.Alloc:
					if !i.Heap && f == ex.fn {
						cells[i] = true
					} else if i.Heap {
						heaps["top"] = true
						for _, h := range heapOfAddr(i) {
							heaps[h] = true
						}
					}
				case *ssa.MapUpdate:
					mt := i.Map.Type().Underlying().(*types.Map)
					dn, vn := ex.regMap(mt)
					heaps[dn], heaps[vn] = true, true
				case *ssa.MakeMap:
					mt := i.Type().Underlying().(*types.Map)
					dn, vn := ex.regMap(mt)
					heaps[dn], heaps[vn], heaps["top"] = true, true, true
				case *ssa.MakeSlice:
					heaps[ex.regElem(i.Type().Underlying().(*types.Slice).Elem())] = true
					heaps["top"] = true
				case *ssa.Convert:
					if sl, ok := i.Type().Underlying().(*types.Slice); ok && isString(i.X.Type()) {
						heaps[ex.regElem(sl.Elem())] = true
						heaps["top"] = true
					}
				case ssa.CallInstruction:
					c := i.Common()
					heaps["top"] = true
					if bi, ok := c.Value.(*ssa.Builtin); ok {
						switch bi.Name() {
						case "append":
							heaps[ex.regElem(c.Args[0].Type().Underlying().(*types.Slice).Elem())] = true
						case "copy":
							heaps[ex.regElem(c.Args[0].Type().Underlying().(*types.Slice).Elem())] = true
						case "delete":
							mt := c.Args[0].Type().Underlying().(*types.Map)
							dn, _ := ex.regMap(mt)
							heaps[dn] = true
						}
						continue
					}
					for _, a := range c.Args {
						// an interior pointer passed to a callee: the callee may store through it
						switch a.(type) {
						case *ssa.FieldAddr, *ssa.IndexAddr:
							for _, h := range heapOfAddr(a) {
								heaps[h] = true
							}
						}
					}
					if hs, ok := ex.monitorCallHeaps(c); ok {
						for _, h := range hs {
							heaps[h] = true
						}
						continue
					}
					var fc *FuncContract
					var callee *ssa.Function
					if c.IsInvoke() {
						_, fc = ex.eng.ifaceContract(c.Value.Type(), c.Method)
					} else if callee = c.StaticCallee(); callee != nil {
						key := funcKey(callee)
						if callee.Origin() != nil {
							key = funcKey(callee.Origin())
						}
						fc = ex.eng.CS.Funcs[key]
					}
					if fc != nil {
						if fc.Pure {
							continue
						}
						for _, cl := range fc.Assigns {
							for _, e := range cl.Exprs {
								hs, all := ex.staticAssignHeaps(fc, callee, c, e)
								if all {
									allHeaps = true
								}
								for _, h := range hs {
									heaps[h] = true
								}
							}
						}
						if len(fc.Assigns) == 0 {
							allHeaps = true
						}
						continue
					}
					if callee != nil && callee.Blocks != nil && !visited[callee] && depth < 6 {
						visited[callee] = true
						scanFn(callee, callee.Blocks, depth+1)
						continue
					}
					if callee == nil && !c.IsInvoke() {
						// dynamic call: pure by option, else unknown
						continue
					}
				}
			}
		}
	}
	scanFn(ex.fn, blocks, 0)
	return
}

// staticAssignHeaps maps an assigns target of a callee to heap names using static types only.
func (ex *Exec) staticAssignHeaps(fc *FuncContract, callee *ssa.Function, c *ssa.CallCommon, e CExpr) (hs []string, all bool) {
	var sig *types.Signature
	var pkg *types.Package
	var recvT types.Type
	if callee != nil {
		sig = callee.Signature
		if callee.Pkg != nil {
			pkg = callee.Pkg.Pkg
		}
		if sig.Recv() != nil {
			recvT = sig.Recv().Type()
		}
	} else {
		sig = c.Method.Type().(*types.Signature)
		pkg = c.Method.Pkg()
		recvT = c.Value.Type()
	}
	if fc.Pkg != "" {
		if p := ex.eng.typesPkg(fc.Pkg); p != nil {
			pkg = p
		}
	}
	typeOfName := func(n string) types.Type {
		if n == "this" {
			return recvT
		}
		if sig.Recv() != nil && sig.Recv().Name() == n {
			return sig.Recv().Type()
		}
		for i := 0; i < sig.Params().Len(); i++ {
			if sig.Params().At(i).Name() == n {
				return sig.Params().At(i).Type()
			}
		}
		return nil
	}
	var typeOf func(e CExpr) types.Type
	typeOf = func(e CExpr) types.Type {
		switch x := e.(type) {
		case *CIdent:
			return typeOfName(x.Name)
		case *CSel:
			bt := typeOf(x.X)
			if bt == nil {
				return nil
			}
			obj, _, _ := types.LookupFieldOrMethod(bt, true, pkg, x.Name)
			if v, ok := obj.(*types.Var); ok {
				return v.Type()
			}
		case *CTypeAssert:
			if pkg != nil {
				return (&Env{ex: ex, pkg: pkg, vars: map[string]Val{}, where: "assigns of " + fc.Key}).resolveType(x.Type)
			}
		case *CCall:
			if id, ok := x.Fun.(*CIdent); ok && id.Name == "old" && len(x.Args) == 1 {
				return typeOf(x.Args[0])
			}
		case *CIndex:
			bt := typeOf(x.X)
			if bt == nil {
				return nil
			}
			if sl, ok := bt.Underlying().(*types.Slice); ok {
				return sl.Elem()
			}
		}
		return nil
	}
	switch x := e.(type) {
	case *CCond:
		return ex.staticAssignHeaps(fc, callee, c, x.A) // "cond ? target : nothing"
	case *CIdent:
		if x.Name == "nothing" {
			return nil, false
		}
		if x.Name == "everything" {
			return nil, true
		}
		for _, g := range ex.eng.CS.Ghosts {
			if g.Name == x.Name {
				return nil, false // ghosts are havocked at every loop head anyway
			}
		}
		if pkg != nil {
			if _, ok := pkg.Scope().Lookup(x.Name).(*types.Var); ok {
				return []string{"G_" + sanitize(pkgQualifier(pkg)+"_"+x.Name)}, false
			}
		}
	case *CSel:
		bt := typeOf(x.X)
		if bt != nil {
			if pt, ok := bt.Underlying().(*types.Pointer); ok {
				obj, path, _ := types.LookupFieldOrMethod(bt, true, pkg, x.Name)
				if _, ok := obj.(*types.Var); ok && len(path) == 1 {
					return []string{ex.regField(pt.Elem(), path[0])}, false
				}
			}
		}
	case *CUnary:
		if bt := typeOf(x.X); bt != nil {
			return ex.regObject(deref(bt)), false
		}
	case *CCall:
		if id, ok := x.Fun.(*CIdent); ok && id.Name == "elems" {
			if bt := typeOf(x.Args[0]); bt != nil {
				if sl, ok := bt.Underlying().(*types.Slice); ok {
					return []string{ex.regElem(sl.Elem())}, false
				}
			}
		}
		if id, ok := x.Fun.(*CIdent); ok && id.Name == "allof" && pkg != nil {
			if sel, ok := x.Args[0].(*CSel); ok {
				t := (&Env{ex: ex, pkg: pkg, vars: map[string]Val{}, where: "assigns of " + fc.Key}).resolveType(sel.X.String())
				if obj, path, _ := lookupField(types.NewPointer(t), pkg, sel.Name); obj != nil && len(path) == 1 {
					return []string{ex.regField(t, path[0])}, false
				}
			}
		}
		if id, ok := x.Fun.(*CIdent); ok && id.Name == "mapof" {
			if bt := typeOf(x.Args[0]); bt != nil {
				if mt, ok := bt.Underlying().(*types.Map); ok {
					dn, vn := ex.regMap(mt)
					return []string{dn, vn}, false
				}
			}
		}
	}
	ex.eng.errorf("cannot resolve assigns target %s of %s statically", e, fc.Key)
	return nil, true
}

// runBody executes the function body from the given state; fills ex.returns.
func (ex *Exec) runBody(st *State, pc string) {
	fn := ex.fn
	em := ex.em
	if ex.vals == nil {
		ex.vals = map[ssa.Value]Val{}
	}
	loops := findLoops(fn)
	ex.loopInfo = map[*ssa.BasicBlock]*loopInfo{}
	key := funcKey(fn)
	lcs := ex.eng.CS.Loops[key]
	for _, li := range loops {
		ex.loopInfo[li.head] = li
		for _, lc := range lcs {
			if lc.Ordinal == li.ordinal {
				li.lc = lc
			}
		}
		if c, _ := rangeIndexOf(li.head); li.lc == nil && c != nil {
			// a range loop without a written contract gets the automatic counter invariant and measure only
			li.lc = &LoopContract{Func: key, Ordinal: li.ordinal}
		}
		if li.lc == nil {
			ex.eng.errorf("%s: loop #%d of %s (at %s) has no loop contract", ex.position(fn.Pos()), li.ordinal, key, ex.position(firstPos(li.head)))
			li.lc = &LoopContract{Func: key, Ordinal: li.ordinal}
		}
	}
	for _, lc := range lcs {
		if lc.Ordinal < 1 || lc.Ordinal > len(loops) {
			ex.eng.errorf("%s:%d: loop contract %s#%d but function has %d loops", lc.File, lc.Line, key, lc.Ordinal, len(loops))
		}
	}
	order := rpo(fn)
	for _, b := range order {
		var cur *State
		var bpc string
		if b == fn.Blocks[0] {
			cur, bpc = st, pc
		} else {
			var sts []*State
			var conds []string
			for _, p := range b.Preds {
				if isBackEdge(p, b) {
					continue
				}
				c, ok := ex.edge[[2]int{p.Index, b.Index}]
				if !ok {
					continue
				}
				sts = append(sts, ex.out[p])
				conds = append(conds, c)
			}
			if len(sts) == 0 {
				continue // unreachable block
			}
			cur = em.mergeStates(sts, conds)
			bpc = em.define(fmt.Sprintf("pc_b%d", b.Index), sBool, or(conds...))
		}
		ex.curBlock, ex.curSt, ex.curPC = b, cur, bpc
		if li := ex.loopInfo[b]; li != nil {
			ex.loopHead(li)
		}
		ex.pc[b] = ex.curPC
		for _, in := range b.Instrs {
			switch t := in.(type) {
			case *ssa.If:
				c := ex.val(t.Cond).E
				ex.setEdge(b, b.Succs[0], and(ex.curPC, c))
				ex.setEdge(b, b.Succs[1], and(ex.curPC, not(c)))
			case *ssa.Jump:
				ex.setEdge(b, b.Succs[0], ex.curPC)
			case *ssa.Return:
				var vs []Val
				for _, r := range t.Results {
					vs = append(vs, ex.val(r))
				}
				// a return that follows a call of a noreturn function in its block is dead code: no vacuity guard
				ex.returns = append(ex.returns, retSite{pc: ex.curPC, st: ex.curSt, vals: vs, viaPanic: ex.curPC == "false"})
			case *ssa.Panic:
				pv := ex.val(t.X)
				ex.siteHook(in) // "at panic #k assert ..." sees the panic value as `value`
				ex.pendingPanicVal = &pv
				what := ex.eng.snippet(t.Pos())
				if what == "" {
					what = "panic(" + t.X.Name() + ")"
				}
				ex.panicSite(t.Pos(), what, "")
				ex.pendingPanicVal = nil
			default:
				if r := ex.root(); r == ex && r.fc != nil && r.usesBefore && ex.siteCandidate(in) {
					ex.preSiteSt = ex.curSt.clone() // before(e) in a site clause: e in the state before the instruction
				}
				ex.instr(in)
				ex.siteHook(in)
				ex.preSiteSt = nil
			}
		}
		ex.out[b] = ex.curSt
	}
}

func firstPos(b *ssa.BasicBlock) token.Pos {
	for _, in := range b.Instrs {
		if in.Pos() != token.NoPos {
			return in.Pos()
		}
	}
	for _, s := range b.Succs {
		for _, in := range s.Instrs {
			if in.Pos() != token.NoPos {
				return in.Pos()
			}
		}
	}
	return token.NoPos
}

func (ex *Exec) setEdge(from, to *ssa.BasicBlock, cond string) {
	em := ex.em
	if isBackEdge(from, to) {
		ex.backEdge(from, to, cond)
		return
	}
	k := [2]int{from.Index, to.Index}
	if old, ok := ex.edge[k]; ok {
		cond = or(old, cond)
	}
	ex.edge[k] = em.define(fmt.Sprintf("e_%d_%d", from.Index, to.Index), sBool, cond)
}

func (ex *Exec) loopEnv(li *loopInfo, st *State) *Env {
	r := ex
	env := &Env{ex: ex, st: st, old: r.entrySt, vars: map[string]Val{}, fn: ex.fn, pkg: ex.fn.Pkg.Pkg,
		at: firstPos(li.head), where: fmt.Sprintf("loop %s#%d", funcKey(ex.fn), li.ordinal)}
	// parameters are mutable cells inside the body: names resolve to the current cell value, and to the
	// entry value under old() (see Env.ident)
	_ = r
	// "rangeindex" is the hidden counter of THIS loop (a function may have several range loops)
	if cell, _ := rangeIndexOf(li.head); cell != nil {
		if v, live := st.cells[cell]; live {
			env.vars["rangeindex"] = v
		}
	}
	return env
}

func (ex *Exec) loopHead(li *loopInfo) {
	em := ex.em
	lc := li.lc
	pre := ex.curSt
	entryPC := ex.curPC
	// 1. invariant holds on entry
	envIn := ex.loopEnv(li, pre)
	for _, u := range lc.Uses {
		ex.useAxiom(u, envIn, entryPC) // instances of manual axioms are also available when the loop is entered
	}
	for i, inv := range lc.Invariants {
		ex.obligeLabel("inv-init", entryPC, envIn.evalBool(inv.Expr), firstPos(li.head), fmt.Sprintf("loop#%d:%s", li.ordinal, invLabel(inv, i)))
	}
	// 2. havoc what the loop modifies
	cells, heaps, all := ex.loopMods(li)
	st := pre.clone()
	var cs []*ssa.Alloc
	for c := range cells {
		cs = append(cs, c)
	}
	sort.Slice(cs, func(i, j int) bool { return cs[i].Name() < cs[j].Name() })
	for _, c := range cs {
		old, live := st.cells[c]
		if !live {
			continue // allocated inside the loop
		}
		if old.P != nil || old.Fn != nil {
			ex.unsup("loop modifies cell %s holding a meta-level value", c.Comment)
		}
		st.cells[c] = ex.freshVal(c.Comment, old.T)
	}
	if all {
		ex.havocAll(st)
	} else {
		var hs []string
		for h := range heaps {
			hs = append(hs, h)
		}
		sort.Strings(hs)
		for _, h := range hs {
			if h == "top" {
				nt := em.newConst("top", sInt)
				em.emit(fmt.Sprintf("(assert (>= %s %s))", nt, em.heapGet(pre, "top", sInt)))
				st.heaps["top"] = nt
				continue
			}
			srt, ok := em.heapSorts()[h]
			if !ok {
				ex.eng.errorf("internal: sort of heap %s unknown at loop head", h)
				continue
			}
			st.heaps[h] = em.newConst(h, srt)
			ex.loopFrame(h, srt, st.heaps[h])
		}
	}
	// ghost variables modified in the loop are havocked conservatively: all of them
	for g, v := range st.ghost {
		if v.E != "" {
			nv := v
			nv.E = em.newConst("ghost_"+g, v.S)
			if w := em.wf(nv); w != "" && v.S == em.sortOf(v.T) {
				em.emit("(assert " + w + ")")
			}
			st.ghost[g] = nv
		}
	}
	ex.curSt = st
	li.headSt = st.clone()
	li.entryPC = entryPC
	// 3. assume the invariant
	env := ex.loopEnv(li, st)
	// range loops: the hidden counter satisfies -1 <= rangeindex < len (established by construction: it starts at -1,
	// is only incremented in the head, and the body runs only when the incremented value is < len); checked, not assumed
	if cell, lenV := rangeIndexOf(li.head); cell != nil {
		if pre0, live := pre.cells[cell]; live {
			ln := ex.val(lenV).E
			li.rangeCell, li.rangeLen = cell, ln
			ex.obligeLabel("inv-init", entryPC, fmt.Sprintf("(and (<= (- 1) %s) (< %s (ite (>= %s 0) %s 0)))", pre0.E, pre0.E, ln, ln), firstPos(li.head), fmt.Sprintf("loop#%d:auto-rangeindex", li.ordinal))
			cur := st.cells[cell].E
			em.assume(entryPC, fmt.Sprintf("(and (<= (- 1) %s) (< %s (ite (>= %s 0) %s 0)))", cur, cur, ln, ln))
			if lc.Decr == nil {
				li.measure = []string{em.define("measure", sInt, fmt.Sprintf("(- %s %s)", ln, cur))}
			}
		}
	}
	for _, inv := range lc.Invariants {
		em.assume(entryPC, env.evalBool(inv.Expr))
	}
	if lc.Decr != nil {
		li.measure = nil
		for _, e := range lc.Decr.Exprs {
			li.measure = append(li.measure, em.define("measure", sInt, env.evalInt(e)))
		}
	}
	// vacuity guard: invariant (and path) satisfiable at loop head
	ex.vacuity(fmt.Sprintf("loop#%d head reachable", li.ordinal), entryPC, firstPos(li.head))
	ex.fireEvent(fmt.Sprintf("loophead %d", li.ordinal))
	// heaps first touched inside the loop must also be havocked: remember to re-check after the body (see backEdge)
}

func invLabel(c *Clause, i int) string {
	if c.Label != "" {
		return c.Label
	}
	return fmt.Sprintf("inv%d", i+1)
}

func (ex *Exec) backEdge(from, to *ssa.BasicBlock, cond string) {
	li := ex.loopInfo[to]
	lc := li.lc
	st := ex.curSt
	// an iteration that provably never completes means the assumptions made inside the body (invariants, callee
	// postconditions) contradict each other: every inv-keep obligation of this edge would hold vacuously
	if cond != "false" { // "false": the edge follows a call that does not return (log.Panicln in a default case)
		ex.vacuity(fmt.Sprintf("loop#%d back edge reachable", li.ordinal), cond, firstPos(to))
	}
	// soundness check of the havoc set: any heap whose version changed in the body must have been havocked at the head
	_, heaps, all := ex.loopMods(li)
	if !all {
		for h, cur := range st.heaps {
			if cur != li.headSt.heaps[h] && !heaps[h] && ex.em.heapGet(li.headSt, h, ex.em.heapSorts()[h]) != cur {
				ex.eng.errorf("internal: heap %s modified in loop #%d of %s but not in its havoc set", h, li.ordinal, funcKey(ex.fn))
			}
		}
	}
	{
		// "at backedge k assert/set ..." clauses see the state at the end of an iteration
		savePC := ex.curPC
		ex.curPC = cond
		ex.fireEvent(fmt.Sprintf("backedge %d", li.ordinal))
		ex.curPC = savePC
		st = ex.curSt
	}
	env := ex.loopEnv(li, st)
	pos := firstPos(to)
	for _, u := range lc.Uses {
		ex.useAxiom(u, env, cond)
	}
	for i, inv := range lc.Invariants {
		ex.obligeLabel("inv-keep", cond, env.evalBool(inv.Expr), pos, fmt.Sprintf("loop#%d:%s", li.ordinal, invLabel(inv, i)))
	}
	if li.rangeCell != nil {
		cur := st.cells[li.rangeCell].E
		ln := li.rangeLen
		ex.obligeLabel("inv-keep", cond, fmt.Sprintf("(and (<= (- 1) %s) (< %s (ite (>= %s 0) %s 0)))", cur, cur, ln, ln), pos, fmt.Sprintf("loop#%d:auto-rangeindex", li.ordinal))
		if lc.Decr == nil {
			ex.obligeLabel("dec", cond, lexLess([]string{fmt.Sprintf("(- %s %s)", ln, cur)}, li.measure), pos, fmt.Sprintf("loop#%d:auto-range", li.ordinal))
		}
	}
	if lc.Decr != nil {
		var now []string
		for _, e := range lc.Decr.Exprs {
			now = append(now, env.evalInt(e))
		}
		ex.obligeLabel("dec", cond, lexLess(now, li.measure), pos, fmt.Sprintf("loop#%d", li.ordinal))
	} else if li.rangeCell != nil {
	} else if ex.root().fc != nil && ex.root().fc.Options["termination"] != "off" && ex.eng.requireTermination {
		ex.eng.errorf("loop %s#%d has no decreases clause", funcKey(ex.fn), li.ordinal)
	}
}

func (ex *Exec) vacuity(what, pc string, pos token.Pos) {
	r := ex.root()
	if r.specMode > 0 {
		return
	}
	base := fmt.Sprintf("%s/vacuity:%s", r.key, what)
	r.names[base]++
	name := base
	if r.names[base] > 1 {
		name = fmt.Sprintf("%s#%d", base, r.names[base])
	}
	ex.em.Obls = append(ex.em.Obls, &Obligation{Name: name, Kind: "vacuity", Func: r.key, Pos: ex.position(pos), Prefix: len(ex.em.lines), PC: pc, Goal: "false", ExpectSat: true})
}

// siteHook evaluates "at <site> assert e" and "at <site> set g = e" clauses after the matching instruction.
func (ex *Exec) siteHook(in ssa.Instruction) {
	r := ex.root()
	if r.fc == nil || len(r.fc.Sites) == 0 || ex != r {
		return
	}
	for _, cl := range r.fc.Sites {
		_, sel, _ := strings.Cut(cl.Kind, ":")
		if !ex.siteMatches(sel, in) {
			continue
		}
		if r.firedSites == nil {
			r.firedSites = map[*Clause]bool{}
		}
		r.firedSites[cl] = true
		ex.fireSite(cl, sel, in)
	}
}

// fireEvent fires pseudo-sites: "entry", "return".
func (ex *Exec) fireEvent(ev string) {
	r := ex.root()
	if r.fc == nil || ex != r {
		return
	}
	for _, cl := range r.fc.Sites {
		_, sel, _ := strings.Cut(cl.Kind, ":")
		if sel == ev {
			ex.fireSite(cl, sel, nil)
		}
	}
}

func (ex *Exec) fireSite(cl *Clause, sel string, in ssa.Instruction) {
	r := ex.root()
	pos := ex.fn.Pos()
	if in != nil {
		pos = in.Pos()
	} else if ex.curBlock != nil && sel != "entry" && sel != "return" {
		if p := firstPos(ex.curBlock); p != token.NoPos {
			pos = p
		}
	}
	env := &Env{ex: ex, st: ex.curSt, old: r.entrySt, vars: map[string]Val{}, fn: ex.fn, pkg: ex.fn.Pkg.Pkg, at: pos, where: "site " + sel}
	if p, ok := in.(*ssa.Panic); ok {
		env.vars["value"] = ex.val(p.X)
	}
	if c, ok := in.(ssa.CallInstruction); ok {
		for i, a := range c.Common().Args {
			env.vars[fmt.Sprintf("arg%d", i)] = ex.val(a)
		}
		if v, ok := in.(ssa.Value); ok {
			rv := ex.val(v)
			if len(rv.Tuple) > 0 {
				for i, t := range rv.Tuple {
					env.vars[fmt.Sprintf("ret%d", i)] = t
				}
			} else if rv.E != "" {
				env.vars["ret0"] = rv
			}
		}
	}
	if strings.HasPrefix(cl.Kind, "set:") {
		old, ok := ex.curSt.ghost[cl.Label]
		if !ok {
			env.fail("set of undeclared ghost %s", cl.Label)
		}
		if !r.assignsAll {
			// frame: callers havoc a ghost only if the callee's assigns clause names it
			listed := false
			for _, t := range r.assignsTargets {
				listed = listed || t.heap == "ghost:"+cl.Label
			}
			if !listed {
				env.fail("ghost %s is set here but not named in the assigns clause", cl.Label)
			}
		}
		nv := env.eval(cl.Expr)
		if nv.S != old.S {
			env.fail("ghost %s has sort %s, assigned %s", cl.Label, old.S, nv.S)
		}
		nv.T = old.T
		nv.E = ex.em.define("ghost_"+cl.Label, nv.S, nv.E)
		ex.curSt.ghost[cl.Label] = nv
		return
	}
	ex.obligeLabel("site", ex.curPC, env.evalBool(cl.Expr), pos, sel+":"+clauseLabel(cl))
}

// site selectors: "call <name>#k" (k-th call, in block order, to a function whose key ends with <name>),
// "store <var>#k" (k-th store to the local variable <var>)
func (ex *Exec) siteMatches(sel string, in ssa.Instruction) bool {
	kind, rest, _ := strings.Cut(sel, " ")
	name, ord, _ := strings.Cut(rest, "#")
	if m := ex.eng.Renames[funcKey(ex.fn)]; m != nil && kind == "store" {
		if nn, ok := m[name]; ok {
			name = nn
		}
	}
	match := func(i ssa.Instruction) bool {
		switch kind {
		case "call":
			c, ok := i.(ssa.CallInstruction)
			if !ok {
				return false
			}
			if _, isDefer := i.(*ssa.Defer); isDefer {
				return false
			}
			cn := calleeName(c.Common())
			return cn == name || strings.HasSuffix(cn, "."+name)
		case "mapupdate":
			// "mapupdate #k": the k-th map element assignment m[k] = v of the function
			_, ok := i.(*ssa.MapUpdate)
			return ok
		case "panic":
			// "panic #k": the k-th panic statement of the function; the clause sees its operand as `value`
			_, ok := i.(*ssa.Panic)
			return ok
		case "store":
			st, ok := i.(*ssa.Store)
			if !ok {
				return false
			}
			a, ok := st.Addr.(*ssa.Alloc)
			return ok && a.Comment == name
		case "fieldstore":
			// a store to the struct field called <name> (of any object)
			st, ok := i.(*ssa.Store)
			if !ok {
				return false
			}
			fa, ok := st.Addr.(*ssa.FieldAddr)
			if !ok {
				return false
			}
			stt, ok := deref(fa.X.Type()).Underlying().(*types.Struct)
			return ok && stt.Field(fa.Field).Name() == name
		}
		return false
	}
	if in == nil || !match(in) {
		return false
	}
	if ord == "" {
		return true
	}
	n := 0
	for _, b := range ex.fn.Blocks {
		for _, i2 := range b.Instrs {
			if match(i2) {
				n++
				if i2 == in {
					return fmt.Sprint(n) == ord
				}
			}
		}
	}
	return false
}

func calleeName(c *ssa.CallCommon) string {
	if c.IsInvoke() {
		return c.Method.Name()
	}
	if f := c.StaticCallee(); f != nil {
		return funcKey(f)
	}
	if b, ok := c.Value.(*ssa.Builtin); ok {
		return b.Name()
	}
	// a call through a local variable or parameter holding a function value: the variable's name
	if u, ok := c.Value.(*ssa.UnOp); ok && u.Op == token.MUL {
		if a, ok := u.X.(*ssa.Alloc); ok && a.Comment != "" {
			return a.Comment
		}
	}
	return c.Value.Name()
}

// VerifyFunc generates all obligations of one function under contract.
func (eng *Engine) VerifyFunc(fn *ssa.Function, fc *FuncContract) (em *Emitter, err error) {
	em = NewEmitter()
	key := funcKey(fn)
	ex := &Exec{eng: eng, em: em, fn: fn, key: key, fc: fc,
		vals: map[ssa.Value]Val{}, pc: map[*ssa.BasicBlock]string{}, out: map[*ssa.BasicBlock]*State{}, edge: map[[2]int]string{},
		counts: map[string]int{}, names: map[string]int{}, params: map[string]Val{}, usedContracts: map[string]bool{}, vstrs: map[string]*VStr{}}
	defer func() {
		if r := recover(); r != nil {
			switch e := r.(type) {
			case unsupported:
				err = fmt.Errorf("%s: unsupported: %s", key, e.msg)
			case cerr:
				err = fmt.Errorf("%s: contract error: %s", key, e.msg)
			default:
				panic(r)
			}
		}
	}()
	st := newState()
	ex.curSt = st
	ex.curPC = "true"
	ex.top0 = em.heapGet(st, "top", sInt)
	em.emit(fmt.Sprintf("(assert (> %s 0))", ex.top0))
	// global axioms
	for _, ax := range eng.CS.Axioms {
		if ax.Manual {
			continue
		}
		env := &Env{ex: ex, st: st, old: st, vars: map[string]Val{}, pkg: eng.typesPkgOr(ax.Pkg, fn.Pkg.Pkg), where: "axiom " + ax.Name}
		em.emit("(assert " + env.evalBool(ax.Expr) + ") ; axiom " + ax.Name)
		em.Assumed["axiom "+ax.Name+": "+ax.Text] = true
	}
	isInit := fn.Name() == "init" && fn.Synthetic != ""
	for _, gi := range eng.CS.GInvs {
		// a package invariant holds once that package is initialised: inside the package itself (except in its
		// initialiser, where it is proved) and in every package that imports it, directly or not
		if gi.Pkg == fn.Pkg.Pkg.Path() {
			if isInit {
				continue // proved here, not assumed
			}
		} else if !importsTransitively(fn.Pkg.Pkg, gi.Pkg, map[*types.Package]bool{}) {
			continue
		}
		env := &Env{ex: ex, st: st, old: st, vars: map[string]Val{}, pkg: eng.typesPkgOr(gi.Pkg, fn.Pkg.Pkg), where: "ginv " + gi.Name}
		em.emit("(assert " + env.evalBool(gi.Expr) + ") ; ginv " + gi.Name)
		ex.usedContracts["ginv "+gi.Pkg+"."+gi.Name] = true
	}
	if isInit {
		if g, ok := fn.Pkg.Members["init$guard"].(*ssa.Global); ok {
			gv := ex.readRoot(st, &Ptr{Root: rGlobal, Glob: g, RootT: types.Typ[types.Bool], Elem: types.Typ[types.Bool]})
			em.emit("(assert (not " + gv.E + ")) ; package not yet initialised")
		}
		// package-level variables hold their zero values before the initialiser runs
		var names []string
		for n, m := range fn.Pkg.Members {
			if _, ok := m.(*ssa.Global); ok && n != "init$guard" {
				names = append(names, n)
			}
		}
		sort.Strings(names)
		for _, n := range names {
			g := fn.Pkg.Members[n].(*ssa.Global)
			t := deref(g.Type())
			em.heapSet(st, ex.regGlobal(g), em.sortOf(t), em.zero(t).E)
		}
	}
	for _, p := range fn.Params {
		v := ex.freshVal("p_"+p.Name(), p.Type())
		if _, isPtr := p.Type().Underlying().(*types.Pointer); isPtr {
			em.emit(fmt.Sprintf("(assert (< %s %s))", v.E, ex.top0))
		}
		if v.S == sSlice {
			em.emit(fmt.Sprintf("(assert (< (s_arr %s) %s))", v.E, ex.top0))
		}
		ex.vals[p] = v
		ex.params[p.Name()] = v
	}
	for _, fv := range fn.FreeVars {
		v := ex.freshVal("fv_"+fv.Name(), fv.Type())
		if _, isPtr := fv.Type().Underlying().(*types.Pointer); isPtr && v.E != "" {
			// a free variable of a function literal is the address of a captured variable: never nil, allocated
			em.emit(fmt.Sprintf("(assert (and (> %s 0) (< %s %s)))", v.E, v.E, ex.top0))
		}
		ex.vals[fv] = v
	}
	for _, g := range eng.CS.Ghosts {
		if g.Pkg != "" && g.Pkg != fn.Pkg.Pkg.Path() {
			continue
		}
		genv := &Env{ex: ex, st: st, old: st, vars: map[string]Val{}, pkg: eng.typesPkgOr(g.Pkg, fn.Pkg.Pkg), where: "ghost " + g.Name}
		gt, gs := genv.ghostType(g.Type)
		gv := Val{E: em.newConst("ghost_"+g.Name, gs), S: gs, T: gt}
		if w := em.wf(gv); w != "" && gs == em.sortOf(gt) {
			em.emit("(assert " + w + ")")
		}
		st.ghost[g.Name] = gv
	}
	ex.entrySt = st.clone()
	env := &Env{ex: ex, st: st, old: st, vars: map[string]Val{}, pkg: fn.Pkg.Pkg, where: "contract of " + key}
	for n, v := range ex.params {
		env.vars[n] = v
	}
	for _, cl := range fc.Requires {
		em.emit("(assert " + env.evalBool(cl.Expr) + ") ; requires " + cl.Text)
	}
	for _, cl := range fc.Assume {
		em.emit("(assert " + env.evalBool(cl.Expr) + ") ; assume " + cl.Text)
		em.Assumed["assume in "+key+": "+cl.Text] = true
	}
	// behavioural subtyping: the requires of the interface methods this method implements hold at entry,
	// their measure is this method's measure unless it declares its own
	inh := eng.inheritedContracts(fn)
	for _, in := range inh {
		ienv := &Env{ex: ex, st: st, old: st, vars: map[string]Val{}, pkg: fn.Pkg.Pkg, where: "inherited requires of " + in.key}
		ex.bindIface(ienv, in, fn)
		for _, cl := range in.fc.Requires {
			em.emit("(assert " + ienv.evalBool(cl.Expr) + ") ; inherited requires " + cl.Text)
		}
		if fc.Decr == nil && in.fc.Decr != nil && ex.entryMeasure == nil {
			for _, e := range in.fc.Decr.Exprs {
				ex.entryMeasure = append(ex.entryMeasure, em.define("measure0", sInt, ienv.evalInt(e)))
			}
			ex.inheritedMeasure = true
		}
		if len(fc.Assigns) == 0 && !fc.Pure && len(in.fc.Assigns) > 0 {
			fc = &FuncContract{Key: fc.Key, Pkg: fc.Pkg, Requires: fc.Requires, Ensures: fc.Ensures, Assigns: in.fc.Assigns, Decr: fc.Decr,
				PanicsIf: fc.PanicsIf, Assume: fc.Assume, Sites: fc.Sites, Options: fc.Options, File: fc.File, Line: fc.Line}
			ex.fc = fc
			ex.assignsEnv = ienv
		}
	}
	ex.vacuity("requires satisfiable", "true", fn.Pos())
	// frame
	aenv := env
	if ex.assignsEnv != nil {
		aenv = ex.assignsEnv
	}
	targets, all, ok := ex.assignTargets(fc, aenv)
	ex.assignsTargets, ex.assignsAll = targets, all || !ok
	if fc.Pure {
		ex.assignsAll = false
	}
	for _, cl := range fc.PanicsIf {
		ex.panicsIfTerms = append(ex.panicsIfTerms, env.evalBool(cl.Expr))
	}
	if fc.Decr != nil {
		ex.entryMeasure = nil
		for _, e := range fc.Decr.Exprs {
			ex.entryMeasure = append(ex.entryMeasure, em.define("measure0", sInt, env.evalInt(e)))
		}
	}
	ex.checkSitesExist(fc)
	ex.checkScratchGhosts(fc, key)
	ex.noteBefore(fc)
	ex.fireEvent("entry")
	for _, u := range fc.Uses {
		ex.useAxiom(u, env, "true") // instances of manual axioms over the entry state
	}
	ex.runBody(st, "true")
	// postconditions at each return
	for ri, r := range ex.returns {
		penv := &Env{ex: ex, st: r.st, old: ex.entrySt, vars: map[string]Val{}, pkg: fn.Pkg.Pkg, where: "ensures of " + key}
		for n, v := range ex.params {
			penv.vars[n] = v
		}
		var res Val
		if len(r.vals) == 1 {
			res = r.vals[0]
		} else {
			res = Val{Tuple: r.vals}
		}
		bindResults(penv, fn.Signature, res)
		ex.curSt, ex.curPC = r.st, r.pc
		ex.fireEvent("return")
		penv.st = ex.curSt
		if !r.viaPanic {
			ex.vacuity(fmt.Sprintf("return#%d reachable", ri+1), r.pc, fn.Pos())
		}
		for i, cl := range fc.Ensures {
			lab := cl.Label
			if strings.HasPrefix(lab, "call.") {
				// a call-site summary: an abstract name for the effect that the [body:...] clauses spell out; it is
				// assumed at call sites and not a proof goal of the body
				em.Assumed["call-site summary of "+key+" ["+lab+"] is definitional (it names the effect proved by the body clauses)"] = true
				continue
			}
			if lab == "" {
				lab = fmt.Sprintf("ens%d", i+1)
			}
			parts := eng.splitConjDeep(cl.Expr, fn.Pkg.Pkg.Path(), 0)
			if strings.HasPrefix(lab, "k.") {
				// one clause per node kind (generated contracts): at a return site all but one are trivially true;
				// keeping each as a single obligation keeps the number of solver calls linear in the number of kinds
				parts = []CExpr{cl.Expr}
			}
			for pi, pe := range parts {
				l := fmt.Sprintf("%s@ret%d", lab, ri+1)
				if len(parts) > 1 {
					l = fmt.Sprintf("%s.%d@ret%d", lab, pi+1, ri+1)
				}
				ex.obligeLabel("post", r.pc, penv.evalBool(pe), fn.Pos(), l)
			}
		}
		// inherited postconditions (behavioural subtyping)
		for _, in := range inh {
			ienv := &Env{ex: ex, st: r.st, old: ex.entrySt, vars: map[string]Val{}, pkg: fn.Pkg.Pkg, where: "inherited ensures of " + in.key}
			if isig := ex.bindIface(ienv, in, fn); isig != nil {
				bindResults(ienv, isig, res)
			}
			for i, cl := range in.fc.Ensures {
				lab := cl.Label
				if lab == "" {
					lab = fmt.Sprintf("ens%d", i+1)
				}
				parts := splitConj(cl.Expr)
				for pi, pe := range parts {
					l := fmt.Sprintf("impl:%s@ret%d", lab, ri+1)
					if len(parts) > 1 {
						l = fmt.Sprintf("impl:%s.%d@ret%d", lab, pi+1, ri+1)
					}
					ex.obligeLabel("impl", r.pc, ienv.evalBool(pe), fn.Pos(), l)
				}
			}
		}
	}
	return em, nil
}

// heap name helpers that also register the heap's sort
func (ex *Exec) regField(structT types.Type, i int) string {
	n := fieldHeapName(structT, i)
	ex.em.heapSorts()[n] = "(Array Int " + ex.em.sortOf(structT.Underlying().(*types.Struct).Field(i).Type()) + ")"
	return n
}
func (ex *Exec) regElem(et types.Type) string {
	n := elemHeapName(et)
	ex.em.heapSorts()[n] = "(Array Int (Array Int " + ex.em.sortOf(et) + "))"
	return n
}
func (ex *Exec) regBox(t types.Type) string {
	n := boxHeapName(t)
	ex.em.heapSorts()[n] = "(Array Int " + ex.em.sortOf(t) + ")"
	return n
}
func (ex *Exec) regGlobal(g *ssa.Global) string {
	n := "G_" + sanitize(pkgQualifier(g.Pkg.Pkg)+"_"+g.Name())
	ex.em.heapSorts()[n] = ex.em.sortOf(deref(g.Type()))
	return n
}
func (ex *Exec) regMap(mt *types.Map) (string, string) {
	dn, ds, vn, vs := mapHeaps(ex.em, mt)
	ex.em.heapSorts()[dn] = ds
	ex.em.heapSorts()[vn] = vs
	return dn, vn
}
func (ex *Exec) regObject(t types.Type) []string {
	switch u := t.Underlying().(type) {
	case *types.Struct:
		var hs []string
		for i := 0; i < u.NumFields(); i++ {
			hs = append(hs, ex.regField(t, i))
		}
		return hs
	case *types.Array:
		return []string{ex.regElem(u.Elem())}
	}
	return []string{ex.regBox(t)}
}

// splitConj splits a top-level conjunction (also under a common implication a ==> (b && c)) into separate goals.
func splitConj(e CExpr) []CExpr {
	switch x := e.(type) {
	case *CBinary:
		if x.Op == "&&" {
			return append(splitConj(x.X), splitConj(x.Y)...)
		}
		if x.Op == "==>" {
			rs := splitConj(x.Y)
			if len(rs) > 1 {
				var out []CExpr
				for _, r := range rs {
					out = append(out, &CBinary{Op: "==>", X: x.X, Y: r})
				}
				return out
			}
		}
	}
	return []CExpr{e}
}
