package vc

import (
	"fmt"
	"go/token"
	"go/types"
	"strings"

	"golang.org/x/tools/go/ssa"
)

func (ex *Exec) builtin(b *ssa.Builtin, c *ssa.CallCommon, rt types.Type, pos token.Pos) Val {
	em := ex.em
	st := ex.curSt
	var args []Val
	for _, a := range c.Args {
		args = append(args, ex.val(a))
	}
	switch b.Name() {
	case "len":
		x := args[0]
		switch xt := c.Args[0].Type().Underlying().(type) {
		case *types.Slice:
			return Val{E: "(s_len " + x.E + ")", S: sInt, T: rt}
		case *types.Basic:
			return Val{E: "(slen " + x.E + ")", S: sInt, T: rt}
		case *types.Array:
			return Val{E: fmt.Sprint(xt.Len()), S: sInt, T: rt}
		case *types.Pointer:
			return Val{E: fmt.Sprint(xt.Elem().Underlying().(*types.Array).Len()), S: sInt, T: rt}
		case *types.Map:
			return Val{E: ex.mapLen(st, x), S: sInt, T: rt}
		}
		ex.unsup("len of %v", c.Args[0].Type())
	case "cap":
		x := args[0]
		switch xt := c.Args[0].Type().Underlying().(type) {
		case *types.Slice:
			return Val{E: "(s_cap " + x.E + ")", S: sInt, T: rt}
		case *types.Array:
			return Val{E: fmt.Sprint(xt.Len()), S: sInt, T: rt}
		}
		ex.unsup("cap of %v", c.Args[0].Type())
	case "append":
		return ex.appendOp(args[0], args[1], c.Args[1], rt, pos)
	case "copy":
		return ex.copyOp(args[0], args[1], c.Args[1].Type(), rt, pos)
	case "print", "println":
		return Val{T: rt}
	case "delete":
		ex.mapDelete(st, args[0], args[1], pos)
		return Val{T: rt}
	case "min", "max":
		r := args[0]
		op := "<="
		if b.Name() == "max" {
			op = ">="
		}
		for _, a := range args[1:] {
			r = Val{E: em.define("mm", sInt, ite(fmt.Sprintf("(%s %s %s)", op, r.E, a.E), r.E, a.E)), S: sInt, T: rt}
		}
		return r
	case "recover":
		// the value recovered: nil unless inside a panic handler context
		r := ex.root()
		if ex.recoverVal != nil {
			return *ex.recoverVal
		}
		if r == ex && ex.fn.Parent() != nil {
			// a function literal verified on its own (a deferred handler such as parseFile$1): it may run while a
			// panic is in flight, so recover() yields an arbitrary value (nil when there is none)
			return ex.freshVal("recovered", rt)
		}
		return em.zero(rt)
	case "ssa:wrapnilchk":
		ex.oblige("nil", ex.curPC, fmt.Sprintf("(not (= %s 0))", args[0].E), pos, "nil receiver in wrapper")
		return args[0]
	case "ssa:deferstack":
		return Val{E: "0", S: sInt, T: rt}
	case "clear":
		ex.unsup("clear")
	}
	ex.unsup("builtin %s", b.Name())
	return Val{}
}

// elemsOf returns the (constant) list of elements if the appended slice is a varargs array built in this function.
func (ex *Exec) appendOp(s, t Val, targ ssa.Value, rt types.Type, pos token.Pos) Val {
	em := ex.em
	st := ex.curSt
	sl := rt.Underlying().(*types.Slice)
	et := sl.Elem()
	es := em.sortOf(et)
	hn := elemHeapName(et)
	hs := "(Array Int (Array Int " + es + "))"
	h := em.heapGet(st, hn, hs)
	// source sequence accessor
	var tlen string
	var tat func(k string) string
	if isString(targ.Type()) {
		tlen = "(slen " + t.E + ")"
		tat = func(k string) string { return "(sat " + t.E + " " + k + ")" }
	} else {
		tlen = "(s_len " + t.E + ")"
		tat = func(k string) string {
			return fmt.Sprintf("(select (select %s (s_arr %s)) (+ (s_off %s) %s))", h, t.E, t.E, k)
		}
	}
	n := em.define("apn", sInt, tlen)
	slen := "(s_len " + s.E + ")"
	inplace := em.define("inplace", sBool, fmt.Sprintf("(<= (+ %s %s) (s_cap %s))", slen, n, s.E))
	// fresh backing array for the growth case
	top := ex.top(st)
	fresh := em.define("ref_app", sInt, top)
	em.heapSet(st, "top", sInt, add(top, "1"))
	ncap := em.newConst("ncap", sInt)
	em.emit(fmt.Sprintf("(assert (>= %s (+ %s %s)))", ncap, slen, n))
	arr := em.define("arr", sInt, ite(inplace, "(s_arr "+s.E+")", fresh))
	off := em.define("off", sInt, ite(inplace, "(s_off "+s.E+")", "0"))
	capv := em.define("cap", sInt, ite(inplace, "(s_cap "+s.E+")", ncap))
	// frame: in-place append writes into the existing backing array
	if g, ok := ex.frameGoal(hn, "(s_arr "+s.E+")"); ok {
		ex.oblige("frame", and(ex.curPC, inplace, "(> "+n+" 0)"), g, pos, "append in place")
	}
	// new inner array
	inner := em.newConst("inner", "(Array Int "+es+")")
	oldInner := selectT(h, "(s_arr "+s.E+")")
	k := em.fresh("q_k")
	em.emit(fmt.Sprintf("(assert (forall ((%s Int)) (! (and (=> (and (<= %s %s) (< %s (+ %s %s))) (= (select %s %s) (select %s (+ (s_off %s) (- %s %s))))) (=> (and (<= (+ %s %s) %s) (< %s (+ %s %s %s))) (= (select %s %s) %s)) (=> (and %s (or (< %s (+ %s %s)) (>= %s (+ %s %s %s)))) (= (select %s %s) (select %s %s)))) :pattern ((select %s %s)))))",
		k,
		off, k, k, off, slen, inner, k, oldInner, s.E, k, off,
		off, slen, k, k, off, slen, n, inner, k, tat(fmt.Sprintf("(- %s (+ %s %s))", k, off, slen)),
		inplace, k, off, slen, k, off, slen, n, inner, k, oldInner, k,
		inner, k))
	em.usesQuant = true
	em.heapSet(st, hn, hs, storeT(h, arr, inner))
	r := Val{E: em.define("app", sSlice, fmt.Sprintf("(mk_slice %s %s (+ %s %s) %s)", arr, off, slen, n, capv)), S: sSlice, T: rt}
	return r
}

func (ex *Exec) copyOp(dst, src Val, srcT types.Type, rt types.Type, pos token.Pos) Val {
	em := ex.em
	st := ex.curSt
	sl := dst.T.Underlying().(*types.Slice)
	et := sl.Elem()
	es := em.sortOf(et)
	hn := elemHeapName(et)
	hs := "(Array Int (Array Int " + es + "))"
	h := em.heapGet(st, hn, hs)
	var slen string
	var sat func(k string) string
	if isString(srcT) {
		slen = "(slen " + src.E + ")"
		sat = func(k string) string { return "(sat " + src.E + " " + k + ")" }
	} else {
		slen = "(s_len " + src.E + ")"
		sat = func(k string) string {
			return fmt.Sprintf("(select (select %s (s_arr %s)) (+ (s_off %s) %s))", h, src.E, src.E, k)
		}
	}
	n := em.define("cpn", sInt, ite(fmt.Sprintf("(<= (s_len %s) %s)", dst.E, slen), "(s_len "+dst.E+")", slen))
	if g, ok := ex.frameGoal(hn, "(s_arr "+dst.E+")"); ok {
		ex.oblige("frame", and(ex.curPC, "(> "+n+" 0)"), g, pos, "copy")
	}
	inner := em.newConst("inner", "(Array Int "+es+")")
	oldInner := selectT(h, "(s_arr "+dst.E+")")
	k := em.fresh("q_k")
	em.emit(fmt.Sprintf("(assert (forall ((%s Int)) (! (and (=> (and (<= (s_off %s) %s) (< %s (+ (s_off %s) %s))) (= (select %s %s) %s)) (=> (or (< %s (s_off %s)) (>= %s (+ (s_off %s) %s))) (= (select %s %s) (select %s %s)))) :pattern ((select %s %s)))))",
		k, dst.E, k, k, dst.E, n, inner, k, sat(fmt.Sprintf("(- %s (s_off %s))", k, dst.E)),
		k, dst.E, k, dst.E, n, inner, k, oldInner, k, inner, k))
	em.usesQuant = true
	em.heapSet(st, hn, hs, storeT(h, "(s_arr "+dst.E+")", inner))
	return Val{E: n, S: sInt, T: rt}
}

// ---- maps: value is a reference; contents in heaps MD_<K>_<V> (domain) and MV_<K>_<V> (values) ----

func mapHeaps(em *Emitter, mt *types.Map) (dn, ds, vn, vs string) {
	k := typeName(canon(mt.Key())) + "_" + typeName(canon(mt.Elem()))
	ks, es := em.sortOf(mt.Key()), em.sortOf(mt.Elem())
	return "MD_" + k, "(Array Int (Array " + ks + " Bool))", "MV_" + k, "(Array Int (Array " + ks + " " + es + "))"
}

func (ex *Exec) makeMap(i *ssa.MakeMap) Val {
	em := ex.em
	st := ex.curSt
	mt := i.Type().Underlying().(*types.Map)
	ref := ex.allocRef(st, "map")
	dn, ds, vn, vs := mapHeaps(em, mt)
	ks, es := em.sortOf(mt.Key()), em.sortOf(mt.Elem())
	em.heapSet(st, dn, ds, storeT(em.heapGet(st, dn, ds), ref, fmt.Sprintf("((as const (Array %s Bool)) false)", ks)))
	em.heapSet(st, vn, vs, storeT(em.heapGet(st, vn, vs), ref, fmt.Sprintf("((as const (Array %s %s)) %s)", ks, es, em.zero(mt.Elem()).E)))
	return Val{E: ref, S: sInt, T: i.Type()}
}

func (ex *Exec) mapGet(st *State, m Val, key Val) Val {
	em := ex.em
	mt := m.T.Underlying().(*types.Map)
	dn, ds, vn, vs := mapHeaps(em, mt)
	dom := selectT(selectT(em.heapGet(st, dn, ds), m.E), key.E)
	val := selectT(selectT(em.heapGet(st, vn, vs), m.E), key.E)
	return Val{E: ite(dom, val, em.zero(mt.Elem()).E), S: em.sortOf(mt.Elem()), T: mt.Elem()}
}

func (ex *Exec) mapHas(st *State, m Val, key Val) string {
	em := ex.em
	mt := m.T.Underlying().(*types.Map)
	dn, ds, _, _ := mapHeaps(em, mt)
	return selectT(selectT(em.heapGet(st, dn, ds), m.E), key.E)
}

func (ex *Exec) mapLen(st *State, m Val) string {
	em := ex.em
	mt := m.T.Underlying().(*types.Map)
	dn, ds, _, _ := mapHeaps(em, mt)
	ks := em.sortOf(mt.Key())
	f := ex.uf("card_"+sanitize(ks), []string{"(Array " + ks + " Bool)"}, sInt, selectT(em.heapGet(st, dn, ds), m.E))
	em.global(fmt.Sprintf("(assert (forall ((d (Array %s Bool))) (! (>= (card_%s d) 0) :pattern ((card_%s d)))))", ks, sanitize(ks), sanitize(ks)))
	em.global(fmt.Sprintf("(assert (= (card_%s ((as const (Array %s Bool)) false)) 0))", sanitize(ks), ks))
	em.global(fmt.Sprintf("(assert (forall ((d (Array %s Bool))) (! (=> (= (card_%s d) 0) (= d ((as const (Array %s Bool)) false))) :pattern ((card_%s d)))))", ks, sanitize(ks), ks, sanitize(ks)))
	return f
}

func (ex *Exec) mapLookup(in *ssa.Lookup, m Val) Val {
	em := ex.em
	st := ex.curSt
	key := ex.materialize(ex.val(in.Index))
	mt := in.X.Type().Underlying().(*types.Map)
	v := ex.mapGet(st, Val{E: m.E, S: sInt, T: in.X.Type()}, key)
	v.E = em.define("mget", v.S, v.E)
	v = ex.named(v, "mget")
	if in.CommaOk {
		ok := Val{E: em.define("mok", sBool, ex.mapHas(st, Val{E: m.E, S: sInt, T: in.X.Type()}, key)), S: sBool, T: types.Typ[types.Bool]}
		return Val{Tuple: []Val{v, ok}, T: in.Type()}
	}
	_ = mt
	return v
}

func (ex *Exec) mapUpdate(i *ssa.MapUpdate) {
	em := ex.em
	st := ex.curSt
	m := ex.val(i.Map)
	key := ex.materialize(ex.val(i.Key))
	v := ex.materialize(ex.val(i.Value))
	mt := i.Map.Type().Underlying().(*types.Map)
	ex.oblige("nil-map-write", ex.curPC, fmt.Sprintf("(not (= %s 0))", m.E), i.Pos(), "")
	dn, ds, vn, vs := mapHeaps(em, mt)
	if g, ok := ex.frameGoal(dn, m.E); ok {
		ex.oblige("frame", ex.curPC, g, i.Pos(), "map update")
	}
	d := em.heapGet(st, dn, ds)
	em.heapSet(st, dn, ds, storeT(d, m.E, storeT(selectT(d, m.E), key.E, "true")))
	vv := em.heapGet(st, vn, vs)
	em.heapSet(st, vn, vs, storeT(vv, m.E, storeT(selectT(vv, m.E), key.E, v.E)))
}

func (ex *Exec) mapDelete(st *State, m, key Val, pos token.Pos) {
	em := ex.em
	mt := m.T.Underlying().(*types.Map)
	key = ex.materialize(key)
	dn, ds, _, _ := mapHeaps(em, mt)
	if g, ok := ex.frameGoal(dn, m.E); ok {
		ex.oblige("frame", ex.curPC, g, pos, "map delete")
	}
	d := em.heapGet(st, dn, ds)
	// delete on a nil map is a no-op; ref 0 content is irrelevant
	em.heapSet(st, dn, ds, storeT(d, m.E, storeT(selectT(d, m.E), key.E, "false")))
}

// ---- range over map / string: nondeterministic iteration ----

func (ex *Exec) rangeInit(i *ssa.Range) Val {
	x := ex.val(i.X)
	return Val{E: x.E, S: x.S, T: i.X.Type()}
}

func (ex *Exec) rangeNext(i *ssa.Next) Val {
	em := ex.em
	it := ex.val(i.Iter)
	tup := i.Type().(*types.Tuple)
	ok := Val{E: em.newConst("rng_ok", sBool), S: sBool, T: types.Typ[types.Bool]}
	if i.IsString {
		k := ex.freshVal("rng_k", types.Typ[types.Int])
		v := ex.freshVal("rng_v", types.Typ[types.Int32])
		em.assume(ok.E, fmt.Sprintf("(and (<= 0 %s) (< %s (slen %s)))", k.E, k.E, it.E))
		em.assume(ok.E, fmt.Sprintf("(=> (< (sat %s %s) 128) (= %s (sat %s %s)))", it.E, k.E, v.E, it.E, k.E))
		em.Assumed["range over string: iteration positions are nondeterministic (order/termination not modelled)"] = true
		return Val{Tuple: []Val{ok, k, v}, T: tup}
	}
	mt := it.T.Underlying().(*types.Map)
	k := ex.freshVal("rng_k", mt.Key())
	v := ex.mapGet(ex.curSt, it, k)
	v.E = em.define("rng_v", v.S, v.E)
	em.assume(ok.E, ex.mapHas(ex.curSt, it, k))
	if !blockInCycle(i.Block()) {
		// this Next runs at most once per range statement (the body leaves the loop): it yields a key iff the map is
		// not empty
		dn, ds, _, _ := mapHeaps(em, mt)
		ks := em.sortOf(mt.Key())
		dom := selectT(em.heapGet(ex.curSt, dn, ds), it.E)
		em.emit(fmt.Sprintf("(assert (= %s (not (= %s ((as const (Array %s Bool)) false)))))", ok.E, dom, ks))
	}
	em.Assumed["range over map: each iteration yields an arbitrary present key (order/termination not modelled)"] = true
	return Val{Tuple: []Val{ok, k, v}, T: tup}
}

// ---- inlining ----

func (ex *Exec) inline(callee *ssa.Function, args []Val, bindings []Val, rt types.Type, pos token.Pos) Val {
	child := &Exec{eng: ex.eng, em: ex.em, fn: callee, top_: ex.root(), parent: ex, depth: ex.depth + 1,
		vals: map[ssa.Value]Val{}, pc: map[*ssa.BasicBlock]string{}, out: map[*ssa.BasicBlock]*State{}, edge: map[[2]int]string{}}
	for i, p := range callee.Params {
		child.vals[p] = args[i]
	}
	for i, fv := range callee.FreeVars {
		if i < len(bindings) {
			child.vals[fv] = bindings[i]
		}
	}
	child.recoverVal = ex.recoverVal
	child.entrySt = ex.curSt.clone()
	child.runBody(ex.curSt.clone(), ex.curPC)
	// merge return sites
	if len(child.returns) == 0 {
		ex.curPC = "false"
		return ex.havocResult(rt)
	}
	var sts []*State
	var conds []string
	for _, r := range child.returns {
		sts = append(sts, r.st)
		conds = append(conds, r.pc)
	}
	merged := ex.em.mergeStates(sts, conds)
	// drop callee's cells
	for c := range merged.cells {
		if c.Parent() == callee {
			delete(merged.cells, c)
		}
	}
	ex.curSt = merged
	if len(child.returns) > 1 || child.returns[0].pc != ex.curPC {
		ex.curPC = ex.em.define("pc_ret", sBool, or(conds...))
	}
	n := callee.Signature.Results().Len()
	if n == 0 {
		return Val{T: rt}
	}
	var outs []Val
	for i := 0; i < n; i++ {
		var vs []Val
		for _, r := range child.returns {
			vs = append(vs, r.vals[i])
		}
		outs = append(outs, ex.em.mergeVals("ret", vs, conds))
	}
	if n == 1 {
		return outs[0]
	}
	return Val{Tuple: outs, T: rt}
}

// specInline evaluates a loop-free pure Go function inside a specification (no obligations, no state change).
func (ex *Exec) specInline(callee *ssa.Function, args []Val, st *State) Val {
	saveSt, savePC, saveSpec := ex.curSt, ex.curPC, ex.root().specMode
	ex.root().specMode++
	ex.curSt = st.clone()
	if ex.curPC == "" {
		ex.curPC = "true"
	}
	pcBefore := ex.curPC
	ex.curPC = "true"
	r := ex.inline(callee, args, nil, callee.Signature.Results(), token.NoPos)
	ex.curSt, ex.curPC = saveSt, savePC
	_ = pcBefore
	ex.root().specMode = saveSpec
	if len(r.Tuple) > 0 {
		return r.Tuple[0]
	}
	return r
}

// ---- defers ----

func (ex *Exec) runDefers(i *ssa.RunDefers) {
	if len(ex.defers) == 0 {
		return
	}
	// a panic raised by a deferred call itself is not caught by the handler that is running (activeHandler)
	saveIPE := ex.inPanicExit
	ex.inPanicExit = true
	defer func() { ex.inPanicExit = saveIPE }()
	for k := len(ex.defers) - 1; k >= 0; k-- {
		d := ex.defers[k]
		// executed only if the defer statement was reached
		reached := d.pc
		if d.blk == ex.fn.Blocks[0] || reached == ex.pc[ex.fn.Blocks[0]] {
			ex.call(d.call, &d.call.Call)
			continue
		}
		// conditional execution: run on a copy and merge
		saveSt, savePC := ex.curSt, ex.curPC
		ex.curSt = saveSt.clone()
		ex.curPC = ex.em.define("pc_defer", sBool, and(savePC, reached))
		ex.call(d.call, &d.call.Call)
		ranSt, ranPC := ex.curSt, ex.curPC
		skipPC := ex.em.define("pc_nodefer", sBool, and(savePC, not(reached)))
		ex.curSt = ex.em.mergeStates([]*State{ranSt, saveSt}, []string{ranPC, skipPC})
		ex.curPC = ex.em.define("pc_afterdefer", sBool, or(ranPC, skipPC))
	}
}

var _ = strings.Contains
