package vc

import (
	"fmt"
	"go/constant"
	"go/token"
	"go/types"
	"math/big"
	"strings"

	"golang.org/x/tools/go/ssa"
)

// Exec symbolically executes one function body (top-level or inlined).
type Exec struct {
	eng    *Engine
	em     *Emitter
	fn     *ssa.Function
	key    string // contract key of the function being *verified* (top-level)
	fc     *FuncContract
	top_   *Exec // top-level exec (owner of obligation counters)
	parent *Exec
	depth  int

	vals     map[ssa.Value]Val
	pc       map[*ssa.BasicBlock]string
	out      map[*ssa.BasicBlock]*State
	edge     map[[2]int]string
	entrySt  *State // state at function entry (for old())
	params   map[string]Val
	curBlock *ssa.BasicBlock
	curPC    string
	curSt    *State

	returns []retSite
	defers  []deferRec
	counts  map[string]int
	names   map[string]int
	top0    string // value of top at entry of the verified function
	assignsTargets []assignTarget
	assignsAll bool // no frame restriction (function without assigns clause being inlined etc.)
	loopInfo map[*ssa.BasicBlock]*loopInfo
	usedContracts map[string]bool
	inPanicHandler bool
	inPanicExit bool
	usesScratch bool // the verified function's contract mentions a scratch ghost
	usesBefore  bool   // some site clause uses before(e)
	preSiteSt   *State // the state before the instruction whose site clauses are being evaluated
	pendingPanicVal *Val
	inheritedMeasure bool
	assignsEnv *Env
	measureSt *State
	specMode int
	recoverVal *Val
	havocAllUsed bool
	panicsIfTerms []string
	entryMeasure []string
	vstrs map[string]*VStr
	vstrN int
	firedSites map[*Clause]bool // "at <site>" clauses whose selector matched an instruction
}

type retSite struct {
	pc   string
	st   *State
	vals []Val
	// viaPanic: a return through the recover handler; it may be unreachable (the panic it handles is excluded by
	// its own obligation), so no vacuity guard is attached to it
	viaPanic bool
}

type deferRec struct {
	pc   string
	call *ssa.Defer
	blk  *ssa.BasicBlock
}

func (ex *Exec) root() *Exec {
	if ex.top_ != nil {
		return ex.top_
	}
	return ex
}

func (ex *Exec) position(pos token.Pos) token.Position {
	return ex.eng.Fset.Position(pos)
}

// oblige records a proof obligation: under pc, goal must hold.
func (ex *Exec) oblige(kind, pc, goal string, pos token.Pos, detail string) {
	if goal == "true" {
		return
	}
	r := ex.root()
	if r.specMode > 0 {
		return
	}
	if r.fc != nil && r.fc.Options["safety"] == "off" {
		switch kind {
		case "nil", "bounds", "slice", "assert-type", "div0", "neg-make", "nil-map-write":
			ex.em.assume(pc, goal)
			ex.em.Assumed["safety obligations switched off in "+r.key] = true
			return
		}
	}
	switch kind {
	case "nil", "bounds", "slice", "assert-type", "div0", "neg-make", "nil-map-write":
		if ex.handlePanic(pc, goal, nil) {
			return
		}
	}
	label := ex.eng.snippet(pos)
	if detail != "" && label == "" {
		label = detail
	}
	base := fmt.Sprintf("%s/%s:%s", r.key, kind, label)
	r.names[base]++
	name := base
	if r.names[base] > 1 {
		name = fmt.Sprintf("%s#%d", base, r.names[base])
	}
	ob := &Obligation{Name: name, Kind: kind, Func: r.key, Pos: ex.position(pos), Detail: detail,
		Prefix: len(ex.em.lines), PC: pc, Goal: goal}
	ex.applyKnownFindings(ob)
	ex.em.Obls = append(ex.em.Obls, ob)
	// after the check, the goal may be assumed on this path (not for a recorded finding: the goal is known to fail,
	// assuming it would make everything downstream vacuous)
	if ob.KnownFinding == "" {
		ex.em.assume(pc, goal)
	}
}

func (ex *Exec) konst(c *ssa.Const) Val {
	t := c.Type()
	em := ex.em
	srt := em.sortOf(t)
	if c.Value == nil {
		z := em.zero(t)
		return z
	}
	switch c.Value.Kind() {
	case constant.Bool:
		return Val{E: fmt.Sprint(constant.BoolVal(c.Value)), S: sBool, T: t}
	case constant.String:
		return Val{E: em.strConst(constant.StringVal(c.Value)), S: sStr, T: t}
	case constant.Int:
		if srt == sInt {
			bi, _ := new(big.Int).SetString(c.Value.ExactString(), 10)
			if b, ok := t.Underlying().(*types.Basic); ok && b.Info()&types.IsFloat != 0 {
				return Val{E: smtInt(bi), S: sInt, T: t}
			}
			return Val{E: smtInt(bi), S: sInt, T: t}
		}
	case constant.Float, constant.Complex:
		n := "fconst_" + sanitize(c.Value.ExactString())
		em.globalConst(n, sInt)
		return Val{E: n, S: sInt, T: t}
	}
	ex.unsup("constant %v of type %v", c, t)
	return Val{}
}

func (ex *Exec) val(v ssa.Value) Val {
	switch x := v.(type) {
	case *ssa.Const:
		return ex.konst(x)
	case *ssa.Global:
		return Val{T: x.Type(), S: sInt, P: &Ptr{Root: rGlobal, Glob: x, RootT: deref(x.Type()), Elem: deref(x.Type())}}
	case *ssa.Function:
		return Val{T: x.Type(), S: sInt, Fn: &FnVal{Fn: x}}
	case *ssa.Builtin:
		return Val{T: x.Type(), S: sInt}
	}
	r, ok := ex.vals[v]
	if !ok {
		ex.unsup("value %s (%T) not computed", v.Name(), v)
	}
	return r
}

func (ex *Exec) set(v ssa.Value, r Val) {
	if r.T == nil {
		r.T = v.Type()
	}
	ex.vals[v] = r
}

func pow2(n int) string { return new(big.Int).Lsh(big.NewInt(1), uint(n)).String() }

// wrap normalises an arithmetic result into the range of type t (unsigned and small signed types wrap;
// int/int64 arithmetic is treated as mathematical — stated assumption).
func wrap(e string, t types.Type) string {
	b, ok := t.Underlying().(*types.Basic)
	if !ok {
		return e
	}
	switch b.Kind() {
	case types.Uint8:
		return "(mod " + e + " 256)"
	case types.Uint16:
		return "(mod " + e + " 65536)"
	case types.Uint32:
		return "(mod " + e + " " + pow2(32) + ")"
	case types.Uint, types.Uint64, types.Uintptr:
		return "(mod " + e + " " + pow2(64) + ")"
	case types.Int8:
		return "(- (mod (+ " + e + " 128) 256) 128)"
	case types.Int16:
		return "(- (mod (+ " + e + " 32768) 65536) 32768)"
	}
	return e
}

func constInt(v ssa.Value) (*big.Int, bool) {
	c, ok := v.(*ssa.Const)
	if !ok || c.Value == nil || c.Value.Kind() != constant.Int {
		return nil, false
	}
	bi, ok := new(big.Int).SetString(c.Value.ExactString(), 10)
	return bi, ok
}

func isPow2(n *big.Int) (int, bool) {
	if n.Sign() <= 0 {
		return 0, false
	}
	k := n.BitLen() - 1
	if new(big.Int).Lsh(big.NewInt(1), uint(k)).Cmp(n) == 0 {
		return k, true
	}
	return 0, false
}

// bit operation with a constant operand, exact on mathematical integers (two's complement semantics).
func (ex *Exec) bitop(op token.Token, x string, c *big.Int, t types.Type) (string, bool) {
	switch op {
	case token.AND:
		// x & (2^k - 1)  == x mod 2^k
		if k, ok := isPow2(new(big.Int).Add(c, big.NewInt(1))); ok && c.Sign() >= 0 {
			return "(mod " + x + " " + pow2(k) + ")", true
		}
		if c.Sign() == 0 {
			return "0", true
		}
		// general non-negative constant: sum of bits
		if c.Sign() > 0 && fewBits(c) {
			var parts []string
			for i := 0; i < c.BitLen(); i++ {
				if c.Bit(i) == 1 {
					parts = append(parts, fmt.Sprintf("(* %s (mod (div %s %s) 2))", pow2(i), x, pow2(i)))
				}
			}
			if len(parts) == 1 {
				return parts[0], true
			}
			return "(+ " + strings.Join(parts, " ") + ")", true
		}
	case token.OR:
		if c.Sign() == 0 {
			return x, true
		}
		if c.Sign() > 0 && fewBits(c) {
			// x | c = x + sum over set bits i of c where bit i of x is 0 of 2^i
			var parts []string
			parts = append(parts, x)
			for i := 0; i < c.BitLen(); i++ {
				if c.Bit(i) == 1 {
					parts = append(parts, fmt.Sprintf("(* %s (- 1 (mod (div %s %s) 2)))", pow2(i), x, pow2(i)))
				}
			}
			return "(+ " + strings.Join(parts, " ") + ")", true
		}
	case token.AND_NOT:
		if c.Sign() == 0 {
			return x, true
		}
		if c.Sign() > 0 && fewBits(c) {
			var parts []string
			parts = append(parts, x)
			for i := 0; i < c.BitLen(); i++ {
				if c.Bit(i) == 1 {
					parts = append(parts, fmt.Sprintf("(* (- %s) (mod (div %s %s) 2))", pow2(i), x, pow2(i)))
				}
			}
			return "(+ " + strings.Join(parts, " ") + ")", true
		}
	case token.SHL:
		if c.Sign() >= 0 && c.BitLen() <= 7 {
			return wrap("(* "+x+" "+pow2(int(c.Int64()))+")", t), true
		}
	case token.SHR:
		if c.Sign() >= 0 && c.BitLen() <= 7 {
			return "(div " + x + " " + pow2(int(c.Int64())) + ")", true
		}
	}
	return "", false
}

func (ex *Exec) uf(name string, argSorts []string, ret string, args ...string) string {
	ex.em.global(fmt.Sprintf("(declare-fun %s (%s) %s)", name, strings.Join(argSorts, " "), ret))
	if len(args) == 0 {
		return name
	}
	return "(" + name + " " + strings.Join(args, " ") + ")"
}

func isString(t types.Type) bool {
	b, ok := t.Underlying().(*types.Basic)
	return ok && b.Info()&types.IsString != 0
}
func isFloat(t types.Type) bool {
	b, ok := t.Underlying().(*types.Basic)
	return ok && b.Info()&(types.IsFloat|types.IsComplex) != 0
}
func isUnsigned(t types.Type) bool {
	b, ok := t.Underlying().(*types.Basic)
	return ok && b.Info()&types.IsUnsigned != 0
}

// strEqConst expands s == "lit" character-wise.
func strEqConst(s string, lit string) string {
	parts := []string{fmt.Sprintf("(= (slen %s) %d)", s, len(lit))}
	for i := 0; i < len(lit); i++ {
		parts = append(parts, fmt.Sprintf("(= (sat %s %d) %d)", s, i, lit[i]))
	}
	return and(parts...)
}

func (ex *Exec) strConstOf(v ssa.Value) (string, bool) {
	c, ok := v.(*ssa.Const)
	if !ok || c.Value == nil || c.Value.Kind() != constant.String {
		return "", false
	}
	return constant.StringVal(c.Value), true
}

func (ex *Exec) eqVals(x, y Val) string {
	switch x.S {
	case sSlice:
		// only comparison with nil is legal
		if y.E == "(mk_slice 0 0 0 0)" {
			return fmt.Sprintf("(= (s_arr %s) 0)", x.E)
		}
		if x.E == "(mk_slice 0 0 0 0)" {
			return fmt.Sprintf("(= (s_arr %s) 0)", y.E)
		}
	case sIface:
		if y.E == "(mk_iface 0 0)" {
			return fmt.Sprintf("(= (i_tag %s) 0)", x.E)
		}
		if x.E == "(mk_iface 0 0)" {
			return fmt.Sprintf("(= (i_tag %s) 0)", y.E)
		}
	}
	if x.E == "" || y.E == "" {
		ex.unsup("comparison of meta-level values")
	}
	return fmt.Sprintf("(= %s %s)", x.E, y.E)
}

func (ex *Exec) binop(in *ssa.BinOp) Val {
	x, y := ex.val(in.X), ex.val(in.Y)
	t := in.X.Type()
	rt := in.Type()
	em := ex.em
	switch in.Op {
	case token.EQL, token.NEQ:
		var e string
		if isString(t) {
			if s, ok := ex.strConstOf(in.Y); ok {
				e = strEqConst(x.E, s)
			} else if s, ok := ex.strConstOf(in.X); ok {
				e = strEqConst(y.E, s)
			} else {
				e = fmt.Sprintf("(= %s %s)", x.E, y.E)
				em.Assumed["string == on two non-constant operands modelled as identity of the abstract string value"] = true
			}
		} else {
			e = ex.eqVals(x, y)
		}
		if in.Op == token.NEQ {
			e = not(e)
		}
		return Val{E: e, S: sBool, T: rt}
	case token.LSS, token.LEQ, token.GTR, token.GEQ:
		op := map[token.Token]string{token.LSS: "<", token.LEQ: "<=", token.GTR: ">", token.GEQ: ">="}[in.Op]
		if isString(t) || isFloat(t) {
			name := "cmp_" + op
			if isFloat(t) {
				name = "fcmp_" + op
			}
			srt := em.sortOf(t)
			return Val{E: ex.uf(sanitize(name)+map[string]string{"<": "lt", "<=": "le", ">": "gt", ">=": "ge"}[op], []string{srt, srt}, sBool, x.E, y.E), S: sBool, T: rt}
		}
		return Val{E: fmt.Sprintf("(%s %s %s)", op, x.E, y.E), S: sBool, T: rt}
	}
	if isString(t) && in.Op == token.ADD {
		return ex.concat(x, y, rt)
	}
	if isFloat(t) {
		return Val{E: ex.uf("fop_"+sanitize(in.Op.String()), []string{sInt, sInt}, sInt, x.E, y.E), S: sInt, T: rt}
	}
	if x.S == sBool { // & | on bools do not exist in Go; &&,|| are control flow
		ex.unsup("binop %s on bool", in.Op)
	}
	var e string
	switch in.Op {
	case token.ADD:
		e = wrap(add(x.E, y.E), rt)
	case token.SUB:
		e = wrap(sub(x.E, y.E), rt)
	case token.MUL:
		e = wrap("(* "+x.E+" "+y.E+")", rt)
	case token.QUO:
		ex.oblige("div0", ex.curPC, fmt.Sprintf("(not (= %s 0))", y.E), in.Pos(), "")
		if isUnsigned(rt) {
			e = "(div " + x.E + " " + y.E + ")"
		} else {
			e = fmt.Sprintf("(ite (>= %s 0) (div %s %s) (- (div (- %s) %s)))", x.E, x.E, y.E, x.E, y.E)
		}
	case token.REM:
		ex.oblige("div0", ex.curPC, fmt.Sprintf("(not (= %s 0))", y.E), in.Pos(), "")
		if isUnsigned(rt) {
			e = "(mod " + x.E + " " + y.E + ")"
		} else {
			e = fmt.Sprintf("(ite (>= %s 0) (mod %s %s) (- (mod (- %s) %s)))", x.E, x.E, y.E, x.E, y.E)
		}
	case token.AND, token.OR, token.XOR, token.SHL, token.SHR, token.AND_NOT:
		if c, ok := constInt(in.Y); ok {
			if r, ok := ex.bitop(in.Op, x.E, c, rt); ok {
				e = r
				break
			}
		}
		if c, ok := constInt(in.X); ok && (in.Op == token.AND || in.Op == token.OR) {
			if r, ok := ex.bitop(in.Op, y.E, c, rt); ok {
				e = r
				break
			}
		}
		if in.Op == token.SHL {
			if c, ok := constInt(in.X); ok && c.Cmp(big.NewInt(1)) == 0 {
				// 1 << y : uninterpreted pow2 with basic facts
				e = ex.uf("pow2", []string{sInt}, sInt, y.E)
				em.global("(assert (forall ((k Int)) (! (> (pow2 k) 0) :pattern ((pow2 k)))))")
				break
			}
		}
		name := "bv_" + map[token.Token]string{token.AND: "and", token.OR: "or", token.XOR: "xor", token.SHL: "shl", token.SHR: "shr", token.AND_NOT: "andnot"}[in.Op]
		e = ex.uf(name, []string{sInt, sInt}, sInt, x.E, y.E)
		if in.Op == token.AND || in.Op == token.OR || in.Op == token.XOR {
			// both operands small (below 16): exact, expanded bit by bit; otherwise uninterpreted
			var bits []string
			for i := 0; i < 4; i++ {
				bx := fmt.Sprintf("(mod (div %s %s) 2)", x.E, pow2(i))
				by := fmt.Sprintf("(mod (div %s %s) 2)", y.E, pow2(i))
				var b string
				switch in.Op {
				case token.AND:
					b = fmt.Sprintf("(* %s %s)", bx, by)
				case token.OR:
					b = fmt.Sprintf("(ite (= (+ %s %s) 0) 0 1)", bx, by)
				default:
					b = fmt.Sprintf("(mod (+ %s %s) 2)", bx, by)
				}
				bits = append(bits, fmt.Sprintf("(* %s %s)", pow2(i), b))
			}
			small := fmt.Sprintf("(and (<= 0 %s) (< %s 16) (<= 0 %s) (< %s 16))", x.E, x.E, y.E, y.E)
			e = fmt.Sprintf("(ite %s (+ %s) %s)", small, strings.Join(bits, " "), e)
		}
		r := Val{E: em.define("bv", sInt, e), S: sInt, T: rt}
		if w := em.wf(r); w != "" {
			em.emit("(assert " + w + ")")
		}
		if in.Op == token.AND && isUnsigned(rt) || in.Op == token.AND {
			// x & y <= each non-negative operand
			em.emit(fmt.Sprintf("(assert (=> (>= %s 0) (and (<= 0 %s) (<= %s %s))))", y.E, r.E, r.E, y.E))
			em.emit(fmt.Sprintf("(assert (=> (>= %s 0) (and (<= 0 %s) (<= %s %s))))", x.E, r.E, r.E, x.E))
		}
		return r
	default:
		ex.unsup("binop %s", in.Op)
	}
	return Val{E: e, S: sInt, T: rt}
}

func (ex *Exec) concat(x, y Val, rt types.Type) Val {
	em := ex.em
	if x.E == "str_empty" {
		return y
	}
	if y.E == "str_empty" {
		return x
	}
	r := em.newConst("cat", sStr)
	em.emit(fmt.Sprintf("(assert (= (slen %s) (+ (slen %s) (slen %s))))", r, x.E, y.E))
	em.emit(fmt.Sprintf("(assert (forall ((k Int)) (! (and (=> (and (<= 0 k) (< k (slen %s))) (= (sat %s k) (sat %s k))) (=> (and (<= (slen %s) k) (< k (slen %s))) (= (sat %s k) (sat %s (- k (slen %s)))))) :pattern ((sat %s k)))))",
		x.E, r, x.E, x.E, r, r, y.E, x.E, r))
	return Val{E: r, S: sStr, T: rt}
}

func (ex *Exec) unop(in *ssa.UnOp) Val {
	x := ex.val(in.X)
	switch in.Op {
	case token.MUL:
		return ex.load(ex.curSt, x, ex.curPC, in.Pos())
	case token.NOT:
		return Val{E: not(x.E), S: sBool, T: in.Type()}
	case token.SUB:
		if isFloat(in.Type()) {
			return Val{E: ex.uf("fneg", []string{sInt}, sInt, x.E), S: sInt, T: in.Type()}
		}
		return Val{E: wrap("(- "+x.E+")", in.Type()), S: sInt, T: in.Type()}
	case token.XOR:
		// ^x = -x-1 (signed); unsigned: max - x
		if isUnsigned(in.Type()) {
			_, hi := intRange(in.Type())
			return Val{E: "(- " + hi.String() + " " + x.E + ")", S: sInt, T: in.Type()}
		}
		return Val{E: "(- (- " + x.E + ") 1)", S: sInt, T: in.Type()}
	case token.ARROW:
		ex.unsup("channel receive")
	}
	ex.unsup("unop %s", in.Op)
	return Val{}
}

func (ex *Exec) convert(x Val, from, to types.Type, pos token.Pos) Val {
	em := ex.em
	fs, ts := em.sortOf(from), em.sortOf(to)
	fu, tu := from.Underlying(), to.Underlying()
	switch {
	case fs == sInt && ts == sInt:
		fb, fok := fu.(*types.Basic)
		tb, tok := tu.(*types.Basic)
		if fok && tok && fb.Info()&types.IsInteger != 0 && tb.Info()&types.IsInteger != 0 {
			flo, fhi := intRange(from)
			tlo, thi := intRange(to)
			if flo.Cmp(tlo) >= 0 && fhi.Cmp(thi) <= 0 {
				return Val{E: x.E, S: sInt, T: to}
			}
			// narrowing: wrap
			if tlo.Sign() == 0 {
				return Val{E: em.define("cv", sInt, "(mod "+x.E+" "+new(big.Int).Add(thi, big.NewInt(1)).String()+")"), S: sInt, T: to}
			}
			width := new(big.Int).Add(new(big.Int).Sub(thi, tlo), big.NewInt(1))
			half := new(big.Int).Neg(tlo)
			return Val{E: em.define("cv", sInt, fmt.Sprintf("(- (mod (+ %s %s) %s) %s)", x.E, half, width, half)), S: sInt, T: to}
		}
		if fok && tok && (fb.Info()&types.IsFloat != 0 || tb.Info()&types.IsFloat != 0) {
			r := Val{E: em.define("fcv", sInt, ex.uf("fconv_"+typeName(from)+"_"+typeName(to), []string{sInt}, sInt, x.E)), S: sInt, T: to}
			if w := em.wf(r); w != "" {
				em.emit("(assert " + w + ")")
			}
			return r
		}
		return Val{E: x.E, S: sInt, T: to, P: x.P}
	case fs == sSlice && ts == sStr:
		// string(bytes) / string(runes)
		sl := fu.(*types.Slice)
		r := em.newConst("str", sStr)
		if b, ok := sl.Elem().Underlying().(*types.Basic); ok && b.Kind() == types.Uint8 {
			hn := elemHeapName(sl.Elem())
			h := em.heapGet(ex.curSt, hn, "(Array Int (Array Int Int))")
			em.emit(fmt.Sprintf("(assert (= (slen %s) (s_len %s)))", r, x.E))
			em.emit(fmt.Sprintf("(assert (forall ((k Int)) (! (=> (and (<= 0 k) (< k (s_len %s))) (= (sat %s k) (select (select %s (s_arr %s)) (+ (s_off %s) k)))) :pattern ((sat %s k)))))",
				x.E, r, h, x.E, x.E, r))
		}
		return Val{E: r, S: sStr, T: to}
	case fs == sStr && ts == sSlice:
		sl := tu.(*types.Slice)
		ref := ex.allocRef(ex.curSt, "bytes")
		if b, ok := sl.Elem().Underlying().(*types.Basic); ok && b.Kind() == types.Uint8 {
			hn := elemHeapName(sl.Elem())
			hs := "(Array Int (Array Int Int))"
			h := em.heapGet(ex.curSt, hn, hs)
			inner := em.newConst("bytesarr", "(Array Int Int)")
			em.emit(fmt.Sprintf("(assert (forall ((k Int)) (! (=> (and (<= 0 k) (< k (slen %s))) (= (select %s k) (sat %s k))) :pattern ((select %s k)))))", x.E, inner, x.E, inner))
			em.heapSet(ex.curSt, hn, hs, storeT(h, ref, inner))
			return Val{E: fmt.Sprintf("(mk_slice %s 0 (slen %s) (slen %s))", ref, x.E, x.E), S: sSlice, T: to}
		}
		n := em.newConst("runelen", sInt)
		em.emit(fmt.Sprintf("(assert (and (<= 0 %s) (<= %s (slen %s))))", n, n, x.E))
		return Val{E: fmt.Sprintf("(mk_slice %s 0 %s %s)", ref, n, n), S: sSlice, T: to}
	case fs == sInt && ts == sStr:
		// string(rune)
		r := em.newConst("runestr", sStr)
		em.emit(fmt.Sprintf("(assert (and (<= 1 (slen %s)) (<= (slen %s) 4) (=> (and (<= 0 %s) (< %s 128)) (and (= (slen %s) 1) (= (sat %s 0) %s)))))", r, r, x.E, x.E, r, r, x.E))
		return Val{E: r, S: sStr, T: to}
	case fs == ts:
		return Val{E: x.E, S: ts, T: to, P: x.P, Fn: x.Fn}
	}
	ex.unsup("convert %v -> %v", from, to)
	return Val{}
}

// boxing for interfaces
func (ex *Exec) payload(v Val) string {
	v = ex.materialize(v)
	switch {
	case v.S == sInt:
		return v.E
	case v.S == sBool:
		return ite(v.E, "1", "0")
	case v.S == sStr:
		return "(box_Str " + v.E + ")"
	case v.S == sSlice:
		return "(box_Slice " + v.E + ")"
	case v.S == sIface:
		ex.unsup("boxing an interface")
	case strings.HasPrefix(v.S, "S_"):
		return "(box_" + v.S + " " + v.E + ")"
	case strings.HasPrefix(v.S, "(Array"):
		return ex.uf("box_arr_"+sanitize(v.S), []string{v.S}, sInt, v.E)
	}
	ex.unsup("boxing sort %s", v.S)
	return ""
}

func (ex *Exec) unbox(e string, t types.Type) Val {
	em := ex.em
	s := em.sortOf(t)
	switch {
	case s == sInt:
		return Val{E: "(i_val " + e + ")", S: s, T: t}
	case s == sBool:
		return Val{E: "(= (i_val " + e + ") 1)", S: s, T: t}
	case s == sStr:
		return Val{E: "(unbox_Str (i_val " + e + "))", S: s, T: t}
	case s == sSlice:
		return Val{E: "(unbox_Slice (i_val " + e + "))", S: s, T: t}
	case strings.HasPrefix(s, "S_"):
		return Val{E: "(unbox_" + s + " (i_val " + e + "))", S: s, T: t}
	}
	ex.unsup("unboxing sort %s", s)
	return Val{}
}

func (ex *Exec) makeIface(v Val, t types.Type, it types.Type) Val {
	tag := ex.em.typeTag(t)
	return Val{E: fmt.Sprintf("(mk_iface %d %s)", tag, ex.payload(v)), S: sIface, T: it}
}

func isInterface(t types.Type) bool {
	_, ok := t.Underlying().(*types.Interface)
	return ok
}

// implementsPred: tag-level predicate "dynamic type with this tag implements interface it"
func (ex *Exec) implementsPred(it types.Type, tagExpr string) string {
	iface := it.Underlying().(*types.Interface)
	if iface.NumMethods() == 0 {
		return fmt.Sprintf("(not (= %s 0))", tagExpr)
	}
	name := "impl_" + typeName(it)
	r := ex.uf(name, []string{sInt}, sBool, tagExpr)
	ex.em.noteIface(it)
	return r
}

func (ex *Exec) typeAssert(in *ssa.TypeAssert) Val {
	x := ex.val(in.X)
	em := ex.em
	var ok string
	var res Val
	if isInterface(in.AssertedType) {
		ok = and(fmt.Sprintf("(not (= (i_tag %s) 0))", x.E), ex.implementsPred(in.AssertedType, "(i_tag "+x.E+")"))
		// static knowledge: x's static interface type already implies the asserted one
		if types.AssignableTo(in.X.Type(), in.AssertedType) {
			ok = fmt.Sprintf("(not (= (i_tag %s) 0))", x.E)
		}
		res = Val{E: x.E, S: sIface, T: in.AssertedType}
	} else {
		tag := em.typeTag(in.AssertedType)
		ok = fmt.Sprintf("(= (i_tag %s) %d)", x.E, tag)
		res = ex.unbox(x.E, in.AssertedType)
	}
	if in.CommaOk {
		okv := Val{E: em.define("ok", sBool, ok), S: sBool, T: types.Typ[types.Bool]}
		// on failure the value is the zero value
		z := em.zero(in.AssertedType)
		res.E = em.define("ta", res.S, ite(okv.E, res.E, z.E))
		if w := em.wf(res); w != "" {
			em.assume(and(ex.curPC, okv.E), w) // type invariant of the value held by the interface
		}
		return Val{Tuple: []Val{res, okv}, T: in.Type()}
	}
	ex.oblige("assert-type", ex.curPC, ok, in.Pos(), "")
	res.E = em.define("ta", res.S, res.E)
	if w := em.wf(res); w != "" {
		em.assume(ex.curPC, w) // type invariant of the value held by the interface
	}
	return res
}

func (ex *Exec) sliceOp(in *ssa.Slice) Val {
	x := ex.val(in.X)
	em := ex.em
	var lo, hi, max string
	if in.Low != nil {
		lo = ex.val(in.Low).E
	} else {
		lo = "0"
	}
	st := ex.curSt
	switch xt := in.X.Type().Underlying().(type) {
	case *types.Basic: // string
		ln := "(slen " + x.E + ")"
		if in.High != nil {
			hi = ex.val(in.High).E
		} else {
			hi = ln
		}
		ex.oblige("slice", ex.curPC, fmt.Sprintf("(and (<= 0 %s) (<= %s %s) (<= %s %s))", lo, lo, hi, hi, ln), in.Pos(), "")
		if lo == "0" && hi == ln {
			return x
		}
		return ex.substr(x, lo, hi, in.Type())
	case *types.Slice:
		capE := "(s_cap " + x.E + ")"
		if in.High != nil {
			hi = ex.val(in.High).E
		} else {
			hi = "(s_len " + x.E + ")"
		}
		if in.Max != nil {
			max = ex.val(in.Max).E
			ex.oblige("slice", ex.curPC, fmt.Sprintf("(and (<= 0 %s) (<= %s %s) (<= %s %s) (<= %s %s))", lo, lo, hi, hi, max, max, capE), in.Pos(), "")
		} else {
			max = capE
			ex.oblige("slice", ex.curPC, fmt.Sprintf("(and (<= 0 %s) (<= %s %s) (<= %s %s))", lo, lo, hi, hi, capE), in.Pos(), "")
		}
		e := fmt.Sprintf("(mk_slice (s_arr %s) %s %s %s)", x.E, add("(s_off "+x.E+")", lo), sub(hi, lo), sub(max, lo))
		return Val{E: em.define("sl", sSlice, e), S: sSlice, T: in.Type()}
	case *types.Pointer: // pointer to array
		arr := xt.Elem().Underlying().(*types.Array)
		n := fmt.Sprint(arr.Len())
		if in.High != nil {
			hi = ex.val(in.High).E
		} else {
			hi = n
		}
		max = n
		if in.Max != nil {
			max = ex.val(in.Max).E
		}
		ex.oblige("slice", ex.curPC, fmt.Sprintf("(and (<= 0 %s) (<= %s %s) (<= %s %s) (<= %s %s))", lo, lo, hi, hi, max, max, n), in.Pos(), "")
		var ref string
		if x.P == nil {
			ref = x.E
		} else if x.P.Root == rCell && len(x.P.Path) == 0 {
			// slicing a local array: move it to the heap (copy-in); the cell keeps being the source of truth only if never written later
			ex.unsup("slice of non-escaping local array")
		} else {
			ex.unsup("slice of interior array")
		}
		ex.oblige("nil", ex.curPC, fmt.Sprintf("(not (= %s 0))", ref), in.Pos(), "slice of array pointer")
		_ = st
		e := fmt.Sprintf("(mk_slice %s %s %s %s)", ref, lo, sub(hi, lo), sub(max, lo))
		return Val{E: em.define("sl", sSlice, e), S: sSlice, T: in.Type()}
	}
	ex.unsup("slice of %v", in.X.Type())
	return Val{}
}

func (ex *Exec) substr(x Val, lo, hi string, t types.Type) Val {
	em := ex.em
	r := em.newConst("sub", sStr)
	// the length fact only makes sense where the slice expression is evaluated (lo <= hi was checked there):
	// stated under the current path condition, not globally
	em.assume(ex.curPC, fmt.Sprintf("(= (slen %s) (- %s %s))", r, hi, lo))
	em.emit(fmt.Sprintf("(assert (forall ((k Int)) (! (=> (and (<= 0 k) (< k (- %s %s))) (= (sat %s k) (sat %s (+ %s k)))) :pattern ((sat %s k)))))", hi, lo, r, x.E, lo, r))
	return Val{E: r, S: sStr, T: t}
}

func (ex *Exec) fieldAddr(in *ssa.FieldAddr) Val {
	x := ex.val(in.X)
	st := deref(in.X.Type())
	ft := st.Underlying().(*types.Struct).Field(in.Field).Type()
	if x.P == nil {
		if x.E == "" {
			ex.unsup("field of merged interior pointer")
		}
		ex.oblige("nil", ex.curPC, fmt.Sprintf("(not (= %s 0))", x.E), in.Pos(), "")
		ex.monitorAccess(st, in.Field, x.E, in.Pos())
		return Val{T: in.Type(), S: sInt, P: &Ptr{Root: rField, Ref: x.E, Struct: st, Field: in.Field, RootT: ft, Elem: ft}}
	}
	np := *x.P
	np.Path = append(append([]pathElem{}, x.P.Path...), pathElem{Field: in.Field, T: st})
	np.Elem = ft
	return Val{T: in.Type(), S: sInt, P: &np}
}

func (ex *Exec) indexAddr(in *ssa.IndexAddr) Val {
	x := ex.val(in.X)
	idx := ex.val(in.Index).E
	switch xt := in.X.Type().Underlying().(type) {
	case *types.Slice:
		ex.oblige("bounds", ex.curPC, fmt.Sprintf("(and (<= 0 %s) (< %s (s_len %s)))", idx, idx, x.E), in.Pos(), "")
		return Val{T: in.Type(), S: sInt, P: &Ptr{Root: rElem, Ref: "(s_arr " + x.E + ")", Idx: add("(s_off "+x.E+")", idx), RootT: xt.Elem(), Elem: xt.Elem()}}
	case *types.Pointer:
		arr := xt.Elem().Underlying().(*types.Array)
		ex.oblige("bounds", ex.curPC, fmt.Sprintf("(and (<= 0 %s) (< %s %d))", idx, idx, arr.Len()), in.Pos(), "")
		if x.P == nil {
			if x.E == "" {
				ex.unsup("index of merged interior pointer")
			}
			ex.oblige("nil", ex.curPC, fmt.Sprintf("(not (= %s 0))", x.E), in.Pos(), "")
			return Val{T: in.Type(), S: sInt, P: &Ptr{Root: rElem, Ref: x.E, Idx: idx, RootT: arr.Elem(), Elem: arr.Elem()}}
		}
		np := *x.P
		np.Path = append(append([]pathElem{}, x.P.Path...), pathElem{Field: -1, Index: idx, T: xt.Elem()})
		np.Elem = arr.Elem()
		return Val{T: in.Type(), S: sInt, P: &np}
	}
	ex.unsup("indexaddr on %v", in.X.Type())
	return Val{}
}

func (ex *Exec) index(in *ssa.Index) Val {
	x := ex.val(in.X)
	idx := ex.val(in.Index).E
	switch xt := in.X.Type().Underlying().(type) {
	case *types.Basic:
		ex.oblige("bounds", ex.curPC, fmt.Sprintf("(and (<= 0 %s) (< %s (slen %s)))", idx, idx, x.E), in.Pos(), "")
		return Val{E: fmt.Sprintf("(sat %s %s)", x.E, idx), S: sInt, T: in.Type()}
	case *types.Array:
		ex.oblige("bounds", ex.curPC, fmt.Sprintf("(and (<= 0 %s) (< %s %d))", idx, idx, xt.Len()), in.Pos(), "")
		return Val{E: selectT(x.E, idx), S: ex.em.sortOf(xt.Elem()), T: in.Type()}
	}
	ex.unsup("index on %v", in.X.Type())
	return Val{}
}

func (ex *Exec) lookup(in *ssa.Lookup) Val {
	x := ex.val(in.X)
	if isString(in.X.Type()) {
		idx := ex.val(in.Index).E
		ex.oblige("bounds", ex.curPC, fmt.Sprintf("(and (<= 0 %s) (< %s (slen %s)))", idx, idx, x.E), in.Pos(), "")
		return Val{E: fmt.Sprintf("(sat %s %s)", x.E, idx), S: sInt, T: in.Type()}
	}
	return ex.mapLookup(in, x)
}

func (ex *Exec) instr(in ssa.Instruction) {
	st := ex.curSt
	em := ex.em
	switch i := in.(type) {
	case *ssa.DebugRef:
	case *ssa.Alloc:
		et := deref(i.Type())
		if !i.Heap {
			st.cells[i] = em.zero(et)
			ex.set(i, Val{T: i.Type(), S: sInt, P: &Ptr{Root: rCell, Cell: i, RootT: et, Elem: et}})
		} else {
			ex.set(i, ex.newObject(st, et, i.Comment))
		}
	case *ssa.Store:
		ex.store(st, ex.val(i.Addr), ex.val(i.Val), ex.curPC, i.Pos())
	case *ssa.UnOp:
		ex.set(i, ex.unop(i))
	case *ssa.BinOp:
		v := ex.binop(i)
		v.E = em.define(i.Name(), v.S, v.E)
		ex.set(i, v)
	case *ssa.FieldAddr:
		ex.set(i, ex.fieldAddr(i))
	case *ssa.Field:
		x := ex.val(i.X)
		ex.set(i, ex.getPath(x, pathElem{Field: i.Field, T: i.X.Type()}))
	case *ssa.IndexAddr:
		ex.set(i, ex.indexAddr(i))
	case *ssa.Index:
		ex.set(i, ex.index(i))
	case *ssa.Lookup:
		ex.set(i, ex.lookup(i))
	case *ssa.Slice:
		ex.set(i, ex.sliceOp(i))
	case *ssa.Extract:
		t := ex.val(i.Tuple)
		if i.Index >= len(t.Tuple) {
			ex.unsup("extract from non-tuple")
		}
		ex.set(i, t.Tuple[i.Index])
	case *ssa.ChangeType:
		x := ex.val(i.X)
		x.T = i.Type()
		ex.set(i, x)
	case *ssa.Convert:
		ex.set(i, ex.convert(ex.val(i.X), i.X.Type(), i.Type(), i.Pos()))
	case *ssa.ChangeInterface:
		x := ex.val(i.X)
		x.T = i.Type()
		ex.set(i, x)
	case *ssa.MakeInterface:
		ex.set(i, ex.makeIface(ex.val(i.X), i.X.Type(), i.Type()))
	case *ssa.TypeAssert:
		ex.set(i, ex.typeAssert(i))
	case *ssa.Phi:
		var vs []Val
		var conds []string
		for k, e := range i.Edges {
			pred := i.Block().Preds[k]
			c, ok := ex.edge[[2]int{pred.Index, i.Block().Index}]
			if !ok {
				continue // back edge or unreachable
			}
			vs = append(vs, ex.val(e))
			conds = append(conds, c)
		}
		if len(vs) == 0 {
			ex.unsup("phi without executed predecessors")
		}
		ex.set(i, em.mergeVals(i.Name(), vs, conds))
	case *ssa.MakeSlice:
		ln, cp := ex.val(i.Len).E, ex.val(i.Cap).E
		ex.oblige("neg-make", ex.curPC, fmt.Sprintf("(and (<= 0 %s) (<= %s %s))", ln, ln, cp), i.Pos(), "")
		ref := ex.allocRef(st, "mk")
		et := i.Type().Underlying().(*types.Slice).Elem()
		hn := elemHeapName(et)
		hs := "(Array Int (Array Int " + em.sortOf(et) + "))"
		em.heapSet(st, hn, hs, storeT(em.heapGet(st, hn, hs), ref, fmt.Sprintf("((as const (Array Int %s)) %s)", em.sortOf(et), em.zero(et).E)))
		ex.set(i, Val{E: em.define("mksl", sSlice, fmt.Sprintf("(mk_slice %s 0 %s %s)", ref, ln, cp)), S: sSlice, T: i.Type()})
	case *ssa.MakeMap:
		ex.set(i, ex.makeMap(i))
	case *ssa.MapUpdate:
		ex.mapUpdate(i)
	case *ssa.MakeClosure:
		var bs []Val
		for _, b := range i.Bindings {
			bs = append(bs, ex.val(b))
		}
		ex.set(i, Val{T: i.Type(), S: sInt, Fn: &FnVal{Fn: i.Fn.(*ssa.Function), Bindings: bs}})
	case *ssa.Call:
		ex.set(i, ex.call(i, &i.Call))
	case *ssa.Defer:
		ex.defers = append(ex.defers, deferRec{pc: ex.curPC, call: i, blk: i.Block()})
	case *ssa.RunDefers:
		ex.runDefers(i)
	case *ssa.Range:
		ex.set(i, ex.rangeInit(i))
	case *ssa.Next:
		ex.set(i, ex.rangeNext(i))
	case *ssa.Select:
		if i.Blocking {
			ex.unsup("blocking select")
		}
		// select with a default case: which case fires is a nondeterministic choice (-1 = default)
		idx := ex.freshVal("sel_idx", types.Typ[types.Int])
		em.emit(fmt.Sprintf("(assert (and (<= (- 1) %s) (< %s %d)))", idx.E, idx.E, len(i.States)))
		tup := []Val{idx, ex.freshVal("sel_ok", types.Typ[types.Bool])}
		for _, s := range i.States {
			if s.Dir == types.RecvOnly {
				tup = append(tup, ex.freshVal("sel_recv", s.Chan.Type().Underlying().(*types.Chan).Elem()))
			}
		}
		em.Assumed["non-blocking select is a nondeterministic choice between its cases and default"] = true
		ex.set(i, Val{Tuple: tup, T: i.Type()})
	case *ssa.MakeChan, *ssa.Send, *ssa.Go:
		ex.unsup("concurrency instruction %T", in)
	case *ssa.SliceToArrayPointer, *ssa.MultiConvert:
		ex.unsup("instruction %T", in)
	default:
		ex.unsup("instruction %T", in)
	}
}
