package vc

import (
	"fmt"
	"go/ast"
	"go/constant"
	"go/token"
	"go/types"
	"math/big"
	"sort"
	"strconv"
	"strings"

	"golang.org/x/tools/go/ssa"
	"golang.org/x/tools/go/ssa/ssautil"
)

// KFExcept is the recorded failing class of a known finding, as a contract-language condition evaluated
// at the obligation's program point.
type KFExcept struct {
	Except string
	What   string
}

func CountInstrs(fn *ssa.Function) int {
	n := 0
	for _, b := range fn.Blocks {
		n += len(b.Instrs)
	}
	return n
}

// applyKnownFindings restricts an obligation to the complement of the recorded failing classes.
func (ex *Exec) applyKnownFindings(ob *Obligation) {
	kfs := ex.eng.KnownFindings[ob.Name]
	if len(kfs) == 0 {
		return
	}
	r := ex.root()
	var whats []string
	for _, k := range kfs {
		whats = append(whats, k.What)
		if strings.TrimSpace(k.Except) == "" || k.Except == "true" {
			// the whole obligation is a recorded finding
			ob.Extra = append(ob.Extra, "(assert false)")
			continue
		}
		e, err := ParseCExpr(k.Except)
		if err != nil {
			ex.eng.errorf("known finding %s: %v", ob.Name, err)
			continue
		}
		env := &Env{ex: ex, st: ex.curSt, old: r.entrySt, vars: map[string]Val{}, fn: ex.fn, pkg: ex.fn.Pkg.Pkg, where: "known finding " + ob.Name}
		func() {
			defer func() {
				if rec := recover(); rec != nil {
					if ce, ok := rec.(cerr); ok {
						ex.eng.errorf("known finding %s: %s", ob.Name, ce.msg)
						return
					}
					panic(rec)
				}
			}()
			ob.Extra = append(ob.Extra, "(assert (not "+env.evalBool(e)+"))")
		}()
	}
	ob.KnownFinding = strings.Join(whats, "; ")
}

// VerifyLemma proves a closed specification-level formula.
func (eng *Engine) VerifyLemma(name string) (em *Emitter, err error) {
	var lm *Lemma
	for _, l := range eng.CS.Lemmas {
		if l.Name == name || l.Pkg+"."+l.Name == name {
			lm = l
		}
	}
	if lm == nil {
		return nil, fmt.Errorf("no lemma %s", name)
	}
	em = NewEmitter()
	pkg := eng.typesPkg(lm.Pkg)
	if pkg == nil && len(eng.Pkgs) > 0 {
		pkg = eng.Pkgs[0].Types
	}
	ex := &Exec{eng: eng, em: em, key: "lemma " + name, vals: map[ssa.Value]Val{}, counts: map[string]int{}, names: map[string]int{},
		params: map[string]Val{}, usedContracts: map[string]bool{}, vstrs: map[string]*VStr{}, assignsAll: true}
	defer func() {
		if r := recover(); r != nil {
			switch e := r.(type) {
			case unsupported:
				err = fmt.Errorf("lemma %s: unsupported: %s", name, e.msg)
			case cerr:
				err = fmt.Errorf("lemma %s: contract error: %s", name, e.msg)
			default:
				panic(r)
			}
		}
	}()
	st := newState()
	ex.curSt, ex.curPC, ex.entrySt = st, "true", st
	for _, ax := range eng.CS.Axioms {
		if ax.Manual {
			continue
		}
		env := &Env{ex: ex, st: st, old: st, vars: map[string]Val{}, pkg: eng.typesPkgOr(ax.Pkg, pkg), where: "axiom " + ax.Name}
		em.emit("(assert " + env.evalBool(ax.Expr) + ") ; axiom " + ax.Name)
		em.Assumed["axiom "+ax.Name+": "+ax.Text] = true
	}
	env := &Env{ex: ex, st: st, old: st, vars: map[string]Val{}, pkg: pkg, where: "lemma " + name}
	goal := env.evalBool(lm.Expr)
	ob := &Obligation{Name: "lemma " + name, Kind: "lemma", Func: "lemma " + name, Prefix: len(em.lines), PC: "true", Goal: goal}
	ex.applyKnownFindings(ob)
	em.Obls = append(em.Obls, ob)
	return em, nil
}

// ExpandTables turns every "ginv_table <global>" directive into a package invariant transcribed mechanically from
// the composite literal initialising that global (keys and values evaluated by go/types constant folding):
// table[k] == v for every listed entry, and the zero value everywhere else. The invariant is then PROVED against the
// SSA code of the package initialiser like any other ginv.
func (eng *Engine) ExpandTables() {
	for _, tb := range eng.CS.Tables {
		p := eng.byPath[tb.Pkg]
		if p == nil {
			eng.errorf("%s:%d: ginv_table: package %s not loaded", tb.File, tb.Line, tb.Pkg)
			continue
		}
		var lit *ast.CompositeLit
		for _, f := range p.Syntax {
			for _, d := range f.Decls {
				gd, ok := d.(*ast.GenDecl)
				if !ok || gd.Tok != token.VAR {
					continue
				}
				for _, sp := range gd.Specs {
					vs := sp.(*ast.ValueSpec)
					for i, n := range vs.Names {
						if n.Name == tb.Name && i < len(vs.Values) {
							lit, _ = vs.Values[i].(*ast.CompositeLit)
						}
					}
				}
			}
		}
		if lit == nil {
			eng.errorf("%s:%d: ginv_table: no composite literal initialises %s", tb.File, tb.Line, tb.Name)
			continue
		}
		var conj []string
		var keys []string
		next := int64(0)
		bad := false
		for _, el := range lit.Elts {
			val := el
			if kv, ok := el.(*ast.KeyValueExpr); ok {
				tv := p.TypesInfo.Types[kv.Key]
				if tv.Value == nil || tv.Value.Kind() != constant.Int {
					bad = true
					break
				}
				next, _ = constant.Int64Val(tv.Value)
				val = kv.Value
			}
			tv := p.TypesInfo.Types[val]
			if tv.Value == nil {
				bad = true
				break
			}
			var vtext string
			switch tv.Value.Kind() {
			case constant.String:
				vtext = strconv.Quote(constant.StringVal(tv.Value))
			case constant.Int:
				vtext = tv.Value.ExactString()
			case constant.Bool:
				vtext = tv.Value.ExactString()
			default:
				bad = true
			}
			conj = append(conj, fmt.Sprintf("%s[%d] == %s", tb.Name, next, vtext))
			keys = append(keys, fmt.Sprintf("i != %d", next))
			next++
		}
		if bad {
			eng.errorf("%s:%d: ginv_table %s: non-constant key or value", tb.File, tb.Line, tb.Name)
			continue
		}
		zero := `""`
		at, isArr := p.TypesInfo.TypeOf(lit).Underlying().(*types.Array)
		if !isArr {
			eng.errorf("%s:%d: ginv_table %s: not an array", tb.File, tb.Line, tb.Name)
			continue
		}
		if b, ok := at.Elem().Underlying().(*types.Basic); ok && b.Info()&types.IsString == 0 {
			zero = "0"
			if b.Info()&types.IsBoolean != 0 {
				zero = "false"
			}
		}
		if at.Len() > 4096 {
			eng.errorf("%s:%d: ginv_table %s: table too large", tb.File, tb.Line, tb.Name)
			continue
		}
		listed := map[string]bool{}
		for _, k := range keys {
			listed[strings.TrimPrefix(k, "i != ")] = true
		}
		// every index that the literal does not list holds the zero value (enumerated: the array length is a constant)
		for i := int64(0); i < at.Len(); i++ {
			if !listed[fmt.Sprint(i)] {
				conj = append(conj, fmt.Sprintf("%s[%d] == %s", tb.Name, i, zero))
			}
		}
		text := strings.Join(conj, " && ")
		e, err := ParseCExpr(text)
		if err != nil {
			eng.errorf("%s:%d: ginv_table %s: %v", tb.File, tb.Line, tb.Name, err)
			continue
		}
		eng.CS.GInvs = append(eng.CS.GInvs, &Lemma{Name: "table_" + tb.Name, Expr: e, Text: fmt.Sprintf("(%d entries of %s transcribed from its composite literal)", len(conj), tb.Name), Pkg: tb.Pkg, File: tb.File, Line: tb.Line})
	}
	eng.CS.Tables = nil
}

// ifaceContract finds the contract of an interface method: keyed by the static interface type of the receiver, or by
// the interface that declares the method (e.g. Expr.Pos is declared by the embedded Node).
func (eng *Engine) ifaceContract(recv types.Type, m *types.Func) (string, *FuncContract) {
	key := ifaceMethodKey(recv, m)
	if fc := eng.CS.Funcs[key]; fc != nil {
		return key, fc
	}
	if sig, ok := m.Type().(*types.Signature); ok && sig.Recv() != nil {
		k2 := ifaceMethodKey(sig.Recv().Type(), m)
		if fc := eng.CS.Funcs[k2]; fc != nil {
			return k2, fc
		}
	}
	// an interface contract on a type that declares this very method object (embedding keeps the object)
	for k, fc := range eng.CS.Funcs {
		if !fc.Iface || !strings.HasSuffix(k, "."+m.Name()) {
			continue
		}
		rest := strings.TrimSuffix(k, "."+m.Name())
		i := strings.LastIndex(rest, ".")
		if i < 0 {
			continue
		}
		pkg := eng.typesPkg(rest[:i])
		if pkg == nil {
			continue
		}
		tn, ok := pkg.Scope().Lookup(rest[i+1:]).(*types.TypeName)
		if !ok {
			continue
		}
		it, ok := tn.Type().Underlying().(*types.Interface)
		if !ok {
			continue
		}
		for j := 0; j < it.NumMethods(); j++ {
			if im := it.Method(j); im == m || (im.Name() == m.Name() && im.Pos() == m.Pos()) {
				return k, fc
			}
		}
	}
	return key, nil
}

// parseTypeText resolves a Go type written in a contract: handles *T, []T and pkg.T with pkg an import of the
// contract's package (types.Eval alone only sees the package scope, not file-level imports).
func (env *Env) parseTypeText(text string) (types.Type, bool) {
	text = strings.TrimSpace(text)
	switch {
	case strings.HasPrefix(text, "*"):
		t, ok := env.parseTypeText(text[1:])
		if !ok {
			return nil, false
		}
		return types.NewPointer(t), true
	case strings.HasPrefix(text, "[]"):
		t, ok := env.parseTypeText(text[2:])
		if !ok {
			return nil, false
		}
		return types.NewSlice(t), true
	}
	if j := strings.LastIndex(text, "."); strings.Contains(text, "/") && j > strings.LastIndex(text, "/") && !strings.ContainsAny(text, "[]{}() ") {
		// a type named by full import path: github.com/qiniu/x/errors.List
		for _, sp := range env.ex.eng.Prog.AllPackages() {
			if sp.Pkg.Path() == text[:j] {
				if tn, ok := sp.Pkg.Scope().Lookup(text[j+1:]).(*types.TypeName); ok {
					return tn.Type(), true
				}
			}
		}
		return nil, false
	}
	if i := strings.Index(text, "."); i > 0 && !strings.ContainsAny(text, "[]{}() ") {
		pkg := env.importedPkg(text[:i])
		if pkg == nil && env.pkg != nil && env.pkg.Name() == text[:i] {
			pkg = env.pkg
		}
		if pkg != nil {
			if tn, ok := pkg.Scope().Lookup(text[i+1:]).(*types.TypeName); ok {
				return tn.Type(), true
			}
		}
		return nil, false
	}
	return nil, false
}

// LoopTable lists the natural loops of a function with the ordinals loop contracts refer to.
func LoopTable(eng *Engine, fn *ssa.Function) []string {
	var out []string
	for _, li := range findLoops(fn) {
		out = append(out, fmt.Sprintf("%s#%d  head block %d (%s) at %s", funcKey(fn), li.ordinal, li.head.Index, li.head.Comment, eng.Fset.Position(firstPos(li.head))))
	}
	return out
}

func importsTransitively(p *types.Package, path string, seen map[*types.Package]bool) bool {
	if seen[p] {
		return false
	}
	seen[p] = true
	for _, imp := range p.Imports() {
		if imp.Path() == path || importsTransitively(imp, path, seen) {
			return true
		}
	}
	return false
}

// ---- defer / recover ----

// isRecoverHandler reports whether the deferred call is a function literal that calls recover().
func isRecoverHandler(d *ssa.Defer) bool {
	var f *ssa.Function
	switch v := d.Call.Value.(type) {
	case *ssa.MakeClosure:
		f, _ = v.Fn.(*ssa.Function)
	case *ssa.Function:
		f = v
	}
	if f == nil {
		return false
	}
	for _, b := range f.Blocks {
		for _, in := range b.Instrs {
			if c, ok := in.(*ssa.Call); ok {
				if bi, ok := c.Call.Value.(*ssa.Builtin); ok && bi.Name() == "recover" {
					return true
				}
			}
		}
	}
	return false
}

// activeHandler returns the exec (this one or an ancestor) that has executed a deferred recover handler on every
// path reaching the current point.
func (ex *Exec) activeHandler() *Exec {
	for p := ex; p != nil; p = p.parent {
		if p.inPanicExit || p.curBlock == nil {
			return nil
		}
		for _, d := range p.defers {
			if isRecoverHandler(d.call) && d.blk.Dominates(p.curBlock) {
				return p
			}
		}
	}
	return nil
}

// panicExit models a panic raised (under condition cond) at the current point and caught by this function's
// deferred handler: the deferred calls run with a non-nil recover() value, then the function returns through its
// recover block with the current values of the named results.
func (ex *Exec) panicExit(cond string, panicVal *Val) {
	em := ex.em
	saveSt, savePC, saveRV, saveBlk := ex.curSt, ex.curPC, ex.recoverVal, ex.curBlock
	defer func() {
		ex.curSt, ex.curPC, ex.recoverVal, ex.curBlock = saveSt, savePC, saveRV, saveBlk
		ex.inPanicExit = false
	}()
	ex.inPanicExit = true
	ex.curSt = saveSt.clone()
	ex.curPC = em.define("pc_panic", sBool, and(savePC, cond))
	var rv Val
	if panicVal != nil {
		rv = *panicVal
	} else {
		// a run-time panic: a non-nil value of a run-time error type
		tag := em.typeTagByName("runtime.Error (run-time panic)")
		rv = Val{E: fmt.Sprintf("(mk_iface %d %s)", tag, em.newConst("rtpanic", sInt)), S: sIface, T: types.NewInterfaceType(nil, nil)}
		em.global(fmt.Sprintf("(assert %s)", ex.uf("impl_error", []string{sInt}, sBool, fmt.Sprint(tag))))
	}
	ex.recoverVal = &rv
	for k := len(ex.defers) - 1; k >= 0; k-- {
		d := ex.defers[k]
		if d.blk.Dominates(saveBlk) {
			ex.call(d.call, &d.call.Call)
		}
	}
	ex.recoverVal = saveRV
	if ex.fn.Recover == nil {
		var vs []Val
		res := ex.fn.Signature.Results()
		for i := 0; i < res.Len(); i++ {
			vs = append(vs, em.zero(res.At(i).Type()))
		}
		ex.returns = append(ex.returns, retSite{pc: ex.curPC, st: ex.curSt, vals: vs, viaPanic: true})
		return
	}
	for _, in := range ex.fn.Recover.Instrs {
		switch t := in.(type) {
		case *ssa.Return:
			var vs []Val
			for _, r := range t.Results {
				vs = append(vs, ex.val(r))
			}
			ex.returns = append(ex.returns, retSite{pc: ex.curPC, st: ex.curSt, vals: vs, viaPanic: true})
		case *ssa.RunDefers:
		default:
			ex.instr(in)
		}
	}
}

// handlePanic: if a recover handler is active, route the panicking executions (pc ∧ ¬goal) through it and report
// true; the caller then only has to assume the goal on the continuing path.
func (ex *Exec) handlePanic(pc, goal string, panicVal *Val) bool {
	h := ex.activeHandler()
	if h == nil {
		return false
	}
	if h != ex {
		ex.unsup("panic in an inlined callee caught by a handler of the caller (give the callee a contract)")
	}
	ex.em.Assumed["panics in "+funcKey(ex.fn)+" after its deferred recover() handler is installed are modelled as returns through the handler"] = true
	ex.panicExit(not(goal), panicVal)
	// the executions that continue past this point are those where no panic happened: strengthen the path condition
	// (a global assumption "pc ==> goal" would contradict the panicking executions that now return via the handler)
	if pc == ex.curPC {
		ex.curPC = ex.em.define("pc_nopanic", sBool, and(pc, goal))
	} else {
		ex.curPC = ex.em.define("pc_nopanic", sBool, and(ex.curPC, implies(pc, goal)))
	}
	return true
}

func (em *Emitter) typeTagByName(k string) int {
	if id, ok := em.typeTags[k]; ok {
		return id
	}
	id := len(em.typeTags) + 1
	em.typeTags[k] = id
	em.tagNames = append(em.tagNames, k)
	return id
}

// rangeIndexOf recognises the loop generated for "for ... range <slice|array|string>": the head block increments
// the hidden counter cell "rangeindex" and compares it with the length computed before the loop.
func rangeIndexOf(head *ssa.BasicBlock) (*ssa.Alloc, ssa.Value) {
	var cell *ssa.Alloc
	for _, in := range head.Instrs {
		if st, ok := in.(*ssa.Store); ok {
			if a, ok := st.Addr.(*ssa.Alloc); ok && a.Comment == "rangeindex" {
				cell = a
			}
		}
	}
	if cell == nil || len(head.Instrs) == 0 {
		return nil, nil
	}
	iff, ok := head.Instrs[len(head.Instrs)-1].(*ssa.If)
	if !ok {
		return nil, nil
	}
	cmp, ok := iff.Cond.(*ssa.BinOp)
	if !ok || cmp.Op != token.LSS {
		return nil, nil
	}
	return cell, cmp.Y
}

// ---- behavioural subtyping: a method inherits the contract of every interface method it implements ----

type inherited struct {
	key string
	fc  *FuncContract
}

// inheritedContracts returns the interface-method contracts that fn (a method) must satisfy.
func (eng *Engine) inheritedContracts(fn *ssa.Function) []inherited {
	recv := fn.Signature.Recv()
	if recv == nil {
		return nil
	}
	var out []inherited
	var keys []string
	for k, fc := range eng.CS.Funcs {
		if fc.Iface && strings.HasSuffix(k, "."+fn.Name()) && fc.Options["abstract"] == "" {
			// (an interface contract marked "option abstract" only names the result of dynamic dispatch by an
			// uninterpreted function; there is nothing for an implementation to prove)
			keys = append(keys, k)
		}
	}
	sort.Strings(keys)
	for _, k := range keys {
		rest := strings.TrimSuffix(k, "."+fn.Name())
		i := strings.LastIndex(rest, ".")
		if i < 0 {
			continue
		}
		pkg := eng.typesPkg(rest[:i])
		if pkg == nil {
			continue
		}
		tn, ok := pkg.Scope().Lookup(rest[i+1:]).(*types.TypeName)
		if !ok {
			continue
		}
		it, ok := tn.Type().Underlying().(*types.Interface)
		if !ok {
			continue
		}
		if types.Implements(recv.Type(), it) {
			out = append(out, inherited{k, eng.CS.Funcs[k]})
		}
	}
	return out
}

// bindThis binds the interface contract's names for an implementation: "this" is the receiver boxed into the
// interface, the other parameter names are those of the interface method's signature (positional).
func (ex *Exec) bindIface(env *Env, in inherited, fn *ssa.Function) (isig *types.Signature) {
	recvP := fn.Params[0]
	rv := ex.params[recvP.Name()]
	if recvP.Name() == "" || recvP.Name() == "_" {
		rv = ex.vals[recvP]
	}
	env.vars["this"] = ex.makeIface(rv, recvP.Type(), types.NewInterfaceType(nil, nil))
	// positional binding of the remaining parameters under the interface's names
	rest := strings.TrimSuffix(in.key, "."+fn.Name())
	i := strings.LastIndex(rest, ".")
	pkg := ex.eng.typesPkg(rest[:i])
	tn := pkg.Scope().Lookup(rest[i+1:]).(*types.TypeName)
	it := tn.Type().Underlying().(*types.Interface)
	for j := 0; j < it.NumMethods(); j++ {
		m := it.Method(j)
		if m.Name() != fn.Name() {
			continue
		}
		sig := m.Type().(*types.Signature)
		isig = sig
		for k := 0; k < sig.Params().Len() && k+1 < len(fn.Params); k++ {
			n := sig.Params().At(k).Name()
			if n == "" || n == "_" {
				n = fmt.Sprintf("a%d", k)
			}
			env.vars[n] = ex.vals[fn.Params[k+1]]
		}
	}
	env.pkg = pkg
	return isig
}

// soleIndexedSlice returns the first expression X that the bound variable v indexes directly (X[v], X not
// mentioning v). The quantifier is then translated over absolute positions j of X's backing array (v = j - off):
// the instantiation pattern select(array, j) contains no arithmetic, so facts about a slice transfer to its
// sub-slices by matching alone.
func soleIndexedSlice(body CExpr, v string) CExpr {
	var base CExpr
	mentions := func(e CExpr) bool {
		m := false
		collectIdents(e, func(n string) {
			if n == v {
				m = true
			}
		})
		return m
	}
	var walk func(e CExpr)
	walk = func(e CExpr) {
		if e == nil || base != nil {
			return
		}
		switch x := e.(type) {
		case *CIndex:
			if id, isId := x.I.(*CIdent); isId && id.Name == v && !mentions(x.X) {
				base = x.X
				return
			}
			walk(x.X)
			walk(x.I)
		case *CSel:
			walk(x.X)
		case *CCall:
			for _, a := range x.Args {
				walk(a)
			}
		case *CSlice:
			walk(x.X)
			walk(x.Lo)
			walk(x.Hi)
		case *CUnary:
			walk(x.X)
		case *CBinary:
			walk(x.X)
			walk(x.Y)
		case *CCond:
			walk(x.C)
			walk(x.A)
			walk(x.B)
		case *CQuant:
			if x.Var == v {
				return
			}
			walk(x.Lo)
			walk(x.Hi)
			walk(x.Body)
		case *CTypeAssert:
			walk(x.X)
		}
	}
	walk(body)
	return base
}

type absIdx struct {
	varName string
	sliceE  string
	abs     string
}

func isIdentNamed(e CExpr, name string) bool {
	id, ok := e.(*CIdent)
	return ok && id.Name == name
}

// splitForall: "(forall (BINDERS) BODY)" -> BINDERS (without the outer parentheses), BODY
func splitForall(s string) (binders, body string, ok bool) {
	const p = "(forall ("
	if !strings.HasPrefix(s, p) || !strings.HasSuffix(s, ")") {
		return "", "", false
	}
	depth := 1
	i := len(p)
	for ; i < len(s) && depth > 0; i++ {
		switch s[i] {
		case '(':
			depth++
		case ')':
			depth--
		}
	}
	if depth != 0 || i >= len(s) {
		return "", "", false
	}
	binders = s[len(p) : i-1]
	body = strings.TrimSpace(s[i : len(s)-1])
	if !balanced(body) || !balanced(binders) {
		return "", "", false
	}
	return binders, body, true
}

// useAxiom assumes one explicitly requested instance of a manual axiom: "use name(e1, ..., en)" binds the n leading
// universally quantified variables of the axiom to the given terms (their type guards included).
func (ex *Exec) useAxiom(cl *Clause, env *Env, pc string) {
	call, ok := cl.Expr.(*CCall)
	id, ok2 := (CExpr)(nil), false
	if ok {
		id, ok2 = call.Fun.(*CIdent)
	}
	if !ok || !ok2 {
		env.fail("use: expected name(args)")
	}
	name := id.(*CIdent).Name
	var ax *Lemma
	for _, a := range ex.eng.CS.Axioms {
		if a.Name == name && (ax == nil || (env.pkg != nil && a.Pkg == env.pkg.Path())) {
			ax = a // an axiom of the package of the function under contract wins over a namesake elsewhere
		}
	}
	if ax == nil {
		env.fail("use: no axiom %s", name)
	}
	em := ex.em
	inner := env.with(nil)
	inner.pkg = ex.eng.typesPkgOr(ax.Pkg, env.pkg)
	body := ax.Expr
	var guards []string
	for i, a := range call.Args {
		q, isQ := body.(*CQuant)
		if !isQ || !q.Forall || q.Lo != nil {
			env.fail("use %s: axiom has fewer than %d leading typed universal quantifiers", name, len(call.Args))
		}
		v := env.eval(a)
		t := inner.resolveType(q.Type)
		if v.S == "nil" {
			v = Val{E: em.zero(t).E, S: em.sortOf(t), T: t}
		}
		if v.S != em.sortOf(t) {
			env.fail("use %s: argument %d has sort %s, want %s", name, i+1, v.S, em.sortOf(t))
		}
		v.T = t
		// no type guard: the argument is a well-typed term of the program / specification
		inner.vars[q.Var] = v
		body = q.Body
	}
	f := inner.evalBool(body)
	em.assume(pc, implies(and(guards...), f))
	em.Assumed["axiom "+ax.Name+" (manual, instantiated by use): "+ax.Text] = true
}

// mathCall applies an mfunc: a specification function that does not read program state. Its definition is emitted
// once as an SMT define-fun, so repeated or nested applications keep the VC linear in size.
func (env *Env) mathCall(sf *SpecFunc, args []Val, tenv *Env) Val {
	em := env.em()
	name := "m_" + sanitize(sf.Name)
	rt := tenv.resolveType(sf.Ret)
	rs := em.sortOf(rt)
	if !em.declared["mfunc:"+name] {
		em.declared["mfunc:"+name] = true
		inner := &Env{ex: env.ex, st: newState(), old: nil, vars: map[string]Val{}, pkg: tenv.pkg, bound: 1, where: "mfunc " + sf.Name}
		var binders []string
		for _, p := range sf.Params {
			pt := tenv.resolveType(p.Type)
			pn := "mp_" + sanitize(p.Name)
			binders = append(binders, fmt.Sprintf("(%s %s)", pn, em.sortOf(pt)))
			inner.vars[p.Name] = Val{E: pn, S: em.sortOf(pt), T: pt}
		}
		body := inner.eval(sf.Body)
		if body.S != rs {
			env.fail("mfunc %s: body has sort %s, declared %s", sf.Name, body.S, rs)
		}
		em.pre = append(em.pre, fmt.Sprintf("(define-fun %s (%s) %s %s)", name, strings.Join(binders, " "), rs, body.E))
	}
	var terms []string
	for _, a := range args {
		if a.S == "VStr" {
			env.fail("virtual string passed to mfunc %s", sf.Name)
		}
		terms = append(terms, a.E)
	}
	if len(terms) == 0 {
		return Val{E: name, S: rs, T: rt}
	}
	return Val{E: "(" + name + " " + strings.Join(terms, " ") + ")", S: rs, T: rt}
}

// fileImport resolves an import name as seen from the source file containing pos (honours local import aliases
// and two imports whose packages have the same name, e.g. go/ast and github.com/goplus/xgo/ast).
func (eng *Engine) fileImport(pkg *types.Package, pos token.Pos, name string) *types.Package {
	p := eng.byPath[pkg.Path()]
	if p == nil || p.TypesInfo == nil {
		return nil
	}
	for _, f := range p.Syntax {
		if pos != token.NoPos && !(f.Pos() <= pos && pos <= f.End()) {
			continue
		}
		if sc := p.TypesInfo.Scopes[f]; sc != nil {
			if pn, ok := sc.Lookup(name).(*types.PkgName); ok {
				return pn.Imported()
			}
		}
	}
	return nil
}

// fewBits: constants whose bit operations are expanded exactly, bit by bit (small constants, or wide ones with at
// most four set bits such as single flag bits)
func fewBits(c *big.Int) bool {
	if c.BitLen() <= 16 {
		return true
	}
	n := 0
	for i := 0; i < c.BitLen(); i++ {
		if c.Bit(i) == 1 {
			n++
		}
	}
	return n <= 4 && c.BitLen() <= 62
}

// substCExpr replaces free identifiers by expressions (used to unfold predicate applications syntactically).
func substCExpr(e CExpr, m map[string]CExpr) CExpr {
	if e == nil {
		return nil
	}
	switch x := e.(type) {
	case *CIdent:
		if r, ok := m[x.Name]; ok {
			return r
		}
		return x
	case *CSel:
		return &CSel{X: substCExpr(x.X, m), Name: x.Name}
	case *CCall:
		var args []CExpr
		for _, a := range x.Args {
			args = append(args, substCExpr(a, m))
		}
		return &CCall{Fun: x.Fun, Args: args} // function names are not substituted
	case *CIndex:
		return &CIndex{X: substCExpr(x.X, m), I: substCExpr(x.I, m)}
	case *CSlice:
		return &CSlice{X: substCExpr(x.X, m), Lo: substCExpr(x.Lo, m), Hi: substCExpr(x.Hi, m)}
	case *CUnary:
		return &CUnary{Op: x.Op, X: substCExpr(x.X, m)}
	case *CBinary:
		return &CBinary{Op: x.Op, X: substCExpr(x.X, m), Y: substCExpr(x.Y, m)}
	case *CCond:
		return &CCond{C: substCExpr(x.C, m), A: substCExpr(x.A, m), B: substCExpr(x.B, m)}
	case *CQuant:
		m2 := map[string]CExpr{}
		for k, v := range m {
			if k != x.Var {
				m2[k] = v
			}
		}
		return &CQuant{Forall: x.Forall, Var: x.Var, Lo: substCExpr(x.Lo, m2), Hi: substCExpr(x.Hi, m2), Type: x.Type, Body: substCExpr(x.Body, m2)}
	case *CTypeAssert:
		return &CTypeAssert{X: substCExpr(x.X, m), Type: x.Type}
	}
	return e
}

// splitConjDeep splits a goal into its conjuncts, also through applications of predicates whose body is a
// conjunction (each part is then a separate, smaller obligation). Only predicates of the given package are unfolded,
// and only when none of their parameters is captured by a binder in the argument expressions.
func (eng *Engine) splitConjDeep(e CExpr, pkgPath string, depth int) []CExpr {
	var out []CExpr
	for _, p := range splitConj(e) {
		call, ok := p.(*CCall)
		id, ok2 := (*CIdent)(nil), false
		if ok {
			id, ok2 = call.Fun.(*CIdent)
		}
		if ok && ok2 && depth < 3 {
			if sf := eng.CS.Specs[pkgPath+"."+id.Name]; sf != nil && sf.Body != nil && !sf.Math && len(sf.Params) == len(call.Args) {
				if parts := splitConj(sf.Body); len(parts) > 1 {
					m := map[string]CExpr{}
					for i, prm := range sf.Params {
						m[prm.Name] = call.Args[i]
					}
					for _, part := range parts {
						out = append(out, eng.splitConjDeep(substCExpr(part, m), pkgPath, depth+1)...)
					}
					continue
				}
			}
		}
		// a ==> pred(...) : distribute
		if b, isB := p.(*CBinary); isB && b.Op == "==>" {
			if rs := eng.splitConjDeep(b.Y, pkgPath, depth); len(rs) > 1 {
				for _, r := range rs {
					out = append(out, &CBinary{Op: "==>", X: b.X, Y: r})
				}
				continue
			}
		}
		out = append(out, p)
	}
	return out
}

// splitSpecSig splits "name(params) ret" with nested parentheses in params (function types).
func splitSpecSig(sig string) []string {
	i := strings.IndexByte(sig, '(')
	if i <= 0 {
		return nil
	}
	name := strings.TrimSpace(sig[:i])
	for _, c := range name {
		if !(c == '_' || c >= 'a' && c <= 'z' || c >= 'A' && c <= 'Z' || c >= '0' && c <= '9') {
			return nil
		}
	}
	depth := 0
	for j := i; j < len(sig); j++ {
		switch sig[j] {
		case '(':
			depth++
		case ')':
			depth--
			if depth == 0 {
				return []string{sig, name, sig[i+1 : j], sig[j+1:]}
			}
		}
	}
	return nil
}

// splitTopCommas splits at commas outside parentheses and brackets.
func splitTopCommas(s string) []string {
	var out []string
	depth, st := 0, 0
	for i := 0; i < len(s); i++ {
		switch s[i] {
		case '(', '[', '{':
			depth++
		case ')', ']', '}':
			depth--
		case ',':
			if depth == 0 {
				out = append(out, s[st:i])
				st = i + 1
			}
		}
	}
	return append(out, s[st:])
}

// loopFrame: automatic frame of a loop inside a function with an assigns clause. Every store in the function
// (including those in the loop body and in inlined callees) carries a frame obligation: its target is an object
// allocated after entry, or one of the assigns targets. Hence, by induction on the execution, the rows of objects
// that existed at entry and are not assigns targets still have their entry contents at every loop head.
func (ex *Exec) loopFrame(h, srt, cur string) {
	r := ex.root()
	if r.assignsAll || r.entrySt == nil || r.top0 == "" {
		return
	}
	em := ex.em
	entry := em.heapGet(r.entrySt, h, srt)
	var excl []string
	for _, t := range r.assignsTargets {
		if t.heap != h {
			continue
		}
		if t.ref == "" {
			if t.cond != "" {
				excl = append(excl, not(t.cond))
				continue
			}
			return
		}
		if t.cond != "" {
			excl = append(excl, not(and(t.cond, fmt.Sprintf("(= fr!r %s)", t.ref))))
		} else {
			excl = append(excl, fmt.Sprintf("(not (= fr!r %s))", t.ref))
		}
	}
	if !strings.HasPrefix(srt, "(Array Int ") || strings.HasPrefix(h, "G_") {
		if len(excl) > 0 {
			em.emit(fmt.Sprintf("(assert (=> %s (= %s %s))) ; loop frame", and(excl...), cur, entry))
		} else {
			em.emit(fmt.Sprintf("(assert (= %s %s)) ; loop frame", cur, entry))
		}
		return
	}
	guard := and(append([]string{fmt.Sprintf("(< fr!r %s)", r.top0)}, excl...)...)
	em.emit(fmt.Sprintf("(assert (forall ((fr!r Int)) (! (=> %s (= (select %s fr!r) (select %s fr!r))) :pattern ((select %s fr!r))))) ; loop frame", guard, cur, entry, cur))
}

// findInstance finds the instance of the generic function g whose name is name (e.g. "ListOp[any]").
func (eng *Engine) findInstance(g *ssa.Function, name string) *ssa.Function {
	if eng.instances == nil {
		eng.instances = map[string]*ssa.Function{}
		for f := range ssautil.AllFunctions(eng.Prog) {
			if o := f.Origin(); o != nil && o != f && o.Pkg != nil {
				if f.Pkg == nil {
					f.Pkg = o.Pkg // instances carry no package; the engine resolves names in the origin's
				}
				eng.instances[o.Pkg.Pkg.Path()+"."+f.Name()] = f
			}
		}
	}
	return eng.instances[g.Pkg.Pkg.Path()+"."+name]
}

// blockInCycle: can control return to b after leaving it?
func blockInCycle(b *ssa.BasicBlock) bool {
	seen := map[*ssa.BasicBlock]bool{}
	var walk func(x *ssa.BasicBlock) bool
	walk = func(x *ssa.BasicBlock) bool {
		for _, s := range x.Succs {
			if s == b {
				return true
			}
			if !seen[s] {
				seen[s] = true
				if walk(s) {
					return true
				}
			}
		}
		return false
	}
	return walk(b)
}

// lookupField finds a field or method of t by name; specifications may name unexported members of types declared
// in other packages (the lookup is retried from the declaring package).
func lookupField(t types.Type, pkg *types.Package, name string) (types.Object, []int, bool) {
	obj, path, ind := types.LookupFieldOrMethod(t, true, pkg, name)
	if obj == nil {
		bt := t
		if d := deref(t); d != nil {
			bt = d
		}
		if n, ok := types.Unalias(bt).(*types.Named); ok && n.Obj().Pkg() != nil {
			obj, path, ind = types.LookupFieldOrMethod(t, true, n.Obj().Pkg(), name)
		}
	}
	return obj, path, ind
}

// implicitVarScope: the symbolic variable of a type switch (switch e := x.(type)) is one implicit object per case
// clause, all declared at the same position; go/ssa makes one Alloc per clause, in clause order. The k-th Alloc
// with that name and position belongs to the k-th clause that has an implicit object.
func implicitVarScope(info *types.Info, fn *ssa.Function, a *ssa.Alloc) *types.Scope {
	var objs []*types.Var
	for _, obj := range info.Implicits {
		if v, ok := obj.(*types.Var); ok && v.Pos() == a.Pos() && v.Name() == a.Comment {
			objs = append(objs, v)
		}
	}
	if len(objs) == 0 {
		return nil
	}
	sort.Slice(objs, func(i, j int) bool { return objs[i].Parent().Pos() < objs[j].Parent().Pos() })
	k := 0
	for _, b := range fn.Blocks {
		for _, in := range b.Instrs {
			if x, ok := in.(*ssa.Alloc); ok && x.Pos() == a.Pos() && x.Comment == a.Comment {
				if x == a {
					if k < len(objs) {
						return objs[k].Parent()
					}
					return nil
				}
				k++
			}
		}
	}
	return nil
}

// noteIface: the predicate impl_<I> is in use; state, for every type that has a tag (now or later), whether it
// implements I (go/types decides; types without a tag are unconstrained).
func (em *Emitter) noteIface(it types.Type) {
	if em.ifaces == nil {
		em.ifaces = map[string]types.Type{}
	}
	k := typeName(it)
	if _, ok := em.ifaces[k]; ok {
		return
	}
	em.ifaces[k] = it
	var ids []int
	for id := range em.tagTypes {
		ids = append(ids, id)
	}
	sort.Ints(ids)
	for _, id := range ids {
		em.implFact(it, id, em.tagTypes[id])
	}
}

func (em *Emitter) implFact(it types.Type, tag int, t types.Type) {
	iface, ok := it.Underlying().(*types.Interface)
	if !ok || t == nil {
		return
	}
	if _, isIface := t.Underlying().(*types.Interface); isIface {
		return // tags of interface types are not dynamic types
	}
	v := "false"
	if types.Implements(t, iface) {
		v = "true"
	}
	em.global(fmt.Sprintf("(declare-fun impl_%s (Int) Bool)", typeName(it)))
	em.global(fmt.Sprintf("(assert (= (impl_%s %d) %s))", typeName(it), tag, v))
}

// deepUnalias replaces aliases by the types they stand for, also under pointers, slices, arrays, maps and channels
// (*typeparams.IndexListExpr and *ast.IndexListExpr are one dynamic type).
func deepUnalias(t types.Type) types.Type {
	t = types.Unalias(t)
	switch u := t.(type) {
	case *types.Pointer:
		return types.NewPointer(deepUnalias(u.Elem()))
	case *types.Slice:
		return types.NewSlice(deepUnalias(u.Elem()))
	case *types.Array:
		return types.NewArray(deepUnalias(u.Elem()), u.Len())
	case *types.Map:
		return types.NewMap(deepUnalias(u.Key()), deepUnalias(u.Elem()))
	case *types.Chan:
		return types.NewChan(u.Dir(), deepUnalias(u.Elem()))
	}
	return t
}

// checkSitesExist: an "at <site>#k" clause (k-th such instruction) whose selector matches no instruction of the function no longer describes
// the code (the call/store it hangs on was removed or renumbered): the contract does not apply, which is reported
// like any other out-of-date contract instead of silently dropping the clause.
func (ex *Exec) checkSitesExist(fc *FuncContract) {
	for _, cl := range fc.Sites {
		_, sel, _ := strings.Cut(cl.Kind, ":")
		kind, _, _ := strings.Cut(sel, " ")
		switch kind {
		case "call", "store", "fieldstore", "mapupdate":
		default:
			continue
		}
		if !strings.Contains(sel, "#") {
			continue // "at call f" without an ordinal means every such call, possibly none
		}
		found := false
		for _, b := range ex.fn.Blocks {
			for _, in := range b.Instrs {
				if ex.siteMatches(sel, in) {
					found = true
				}
			}
		}
		if !found {
			panic(cerr{fmt.Sprintf("site %q of %s matches no instruction of the function", sel, fc.Key)})
		}
	}
}

// ---- interior pointers passed to callees under contract ----

// interiorArgs replaces every argument that is an interior pointer to a struct (the address of a struct-typed field
// or local, e.g. the receiver of p.scanner.Scan()) by a reference to a fresh object holding a copy of the pointee,
// and returns the function that copies the object's fields back after the call. Sound when the callee neither
// retains the pointer nor reaches the same struct through another path during the call; recorded as an assumption.
func (ex *Exec) interiorArgs(key string, args []Val, pos token.Pos) func() {
	var outs []func()
	for i, a := range args {
		if a.E != "" || a.P == nil || a.T == nil {
			continue
		}
		pt, ok := a.T.Underlying().(*types.Pointer)
		if !ok {
			continue
		}
		if _, ok := pt.Elem().Underlying().(*types.Struct); !ok && !isSliceT(pt.Elem()) {
			continue
		}
		orig := a
		cur := ex.load(ex.curSt, orig, ex.curPC, pos)
		obj := ex.newObject(ex.curSt, pt.Elem(), "interior")
		ex.storePlain(ex.curSt, obj, cur)
		obj.T = a.T
		args[i] = obj
		ex.em.Assumed["the struct whose address is passed to "+key+" from "+funcKey(ex.root().fn)+" is copied in and out around the call (the callee does not retain the pointer)"] = true
		outs = append(outs, func() {
			nv := ex.loadPlain(ex.curSt, obj)
			ex.store(ex.curSt, orig, nv, ex.curPC, pos)
		})
	}
	if len(outs) == 0 {
		return nil
	}
	return func() {
		for _, f := range outs {
			f()
		}
	}
}

func isSliceT(t types.Type) bool {
	_, ok := t.Underlying().(*types.Slice)
	return ok
}

// blockPanics reports whether the basic block of the instruction ends in a panic or continues with a call of a
// function that does not return (the call only builds the message of a panic).
func blockPanics(in ssa.Instruction) bool {
	return blockPanicsEng(nil, in)
}

func blockPanicsEng(eng *Engine, in ssa.Instruction) bool {
	b := in.Block()
	if b == nil || len(b.Instrs) == 0 {
		return false
	}
	if _, ok := b.Instrs[len(b.Instrs)-1].(*ssa.Panic); ok {
		return true
	}
	if eng == nil {
		return false
	}
	after := false
	for _, i := range b.Instrs {
		if i == in {
			after = true
			continue
		}
		if !after {
			continue
		}
		if c, ok := i.(ssa.CallInstruction); ok {
			if f := c.Common().StaticCallee(); f != nil {
				if fc := eng.CS.Funcs[funcKey(f)]; fc != nil && fc.NoReturn {
					return true
				}
			}
		}
	}
	return false
}

// ---- scratch ghosts ----

// A ghost whose name starts with "scratch" is private to the functions that use it: each function whose contract
// mentions it must set it at entry (so its value never flows in from outside), and in return it needs no assigns
// clause anywhere (callers of such a function are not obliged to list it).
func isScratchGhost(name string) bool { return strings.HasPrefix(name, "scratch") }

func (ex *Exec) checkScratchGhosts(fc *FuncContract, key string) {
	setAtEntry := map[string]bool{}
	for _, cl := range fc.Sites {
		if cl.Kind == "set:entry" {
			setAtEntry[cl.Label] = true
		}
	}
	mention := func(text string) {
		for _, g := range ex.eng.CS.Ghosts {
			if isScratchGhost(g.Name) && strings.Contains(text, g.Name) {
				ex.usesScratch = true
			}
			if isScratchGhost(g.Name) && strings.Contains(text, g.Name) && !setAtEntry[g.Name] {
				ex.eng.errorf("contract of %s mentions the scratch ghost %s without 'at entry set %s = ...'", key, g.Name, g.Name)
				setAtEntry[g.Name] = true
			}
		}
	}
	for _, group := range [][]*Clause{fc.Requires, fc.Ensures, fc.Sites, fc.Assume, fc.PanicsIf} {
		for _, cl := range group {
			mention(cl.Text)
			mention(cl.Label)
		}
	}
}

// siteCandidate: could a site clause be attached to this instruction (call, store, map update)?
func (ex *Exec) siteCandidate(in ssa.Instruction) bool {
	switch in.(type) {
	case ssa.CallInstruction, *ssa.Store, *ssa.MapUpdate:
		return true
	}
	return false
}

// noteBefore records whether a site clause of the contract uses before(e).
func (ex *Exec) noteBefore(fc *FuncContract) {
	for _, cl := range fc.Sites {
		if strings.Contains(cl.Text, "before(") {
			ex.usesBefore = true
		}
	}
}
