package vc

import (
	"fmt"
	"go/ast"
	"go/constant"
	"go/token"
	"go/types"
	"strconv"
	"strings"

	"golang.org/x/tools/go/ssa"
)

// KFExcept is the recorded failing class of a known finding, as a contract-language condition evaluated
// at the obligation's program point.
type KFExcept struct {
	Except string
	What   string
}

func CountInstrs(fn *ssa.Function) int {
	n := 0
	for _, b := range fn.Blocks {
		n += len(b.Instrs)
	}
	return n
}

// applyKnownFindings restricts an obligation to the complement of the recorded failing classes.
func (ex *Exec) applyKnownFindings(ob *Obligation) {
	kfs := ex.eng.KnownFindings[ob.Name]
	if len(kfs) == 0 {
		return
	}
	r := ex.root()
	var whats []string
	for _, k := range kfs {
		whats = append(whats, k.What)
		if strings.TrimSpace(k.Except) == "" || k.Except == "true" {
			// the whole obligation is a recorded finding
			ob.Extra = append(ob.Extra, "(assert false)")
			continue
		}
		e, err := ParseCExpr(k.Except)
		if err != nil {
			ex.eng.errorf("known finding %s: %v", ob.Name, err)
			continue
		}
		env := &Env{ex: ex, st: ex.curSt, old: r.entrySt, vars: map[string]Val{}, fn: ex.fn, pkg: ex.fn.Pkg.Pkg, where: "known finding " + ob.Name}
		func() {
			defer func() {
				if rec := recover(); rec != nil {
					if ce, ok := rec.(cerr); ok {
						ex.eng.errorf("known finding %s: %s", ob.Name, ce.msg)
						return
					}
					panic(rec)
				}
			}()
			ob.Extra = append(ob.Extra, "(assert (not "+env.evalBool(e)+"))")
		}()
	}
	ob.KnownFinding = strings.Join(whats, "; ")
}

// VerifyLemma proves a closed specification-level formula.
func (eng *Engine) VerifyLemma(name string) (em *Emitter, err error) {
	var lm *Lemma
	for _, l := range eng.CS.Lemmas {
		if l.Name == name || l.Pkg+"."+l.Name == name {
			lm = l
		}
	}
	if lm == nil {
		return nil, fmt.Errorf("no lemma %s", name)
	}
	em = NewEmitter()
	pkg := eng.typesPkg(lm.Pkg)
	if pkg == nil && len(eng.Pkgs) > 0 {
		pkg = eng.Pkgs[0].Types
	}
	ex := &Exec{eng: eng, em: em, key: "lemma " + name, vals: map[ssa.Value]Val{}, counts: map[string]int{}, names: map[string]int{},
		params: map[string]Val{}, usedContracts: map[string]bool{}, vstrs: map[string]*VStr{}, assignsAll: true}
	defer func() {
		if r := recover(); r != nil {
			switch e := r.(type) {
			case unsupported:
				err = fmt.Errorf("lemma %s: unsupported: %s", name, e.msg)
			case cerr:
				err = fmt.Errorf("lemma %s: contract error: %s", name, e.msg)
			default:
				panic(r)
			}
		}
	}()
	st := newState()
	ex.curSt, ex.curPC, ex.entrySt = st, "true", st
	for _, ax := range eng.CS.Axioms {
		env := &Env{ex: ex, st: st, old: st, vars: map[string]Val{}, pkg: eng.typesPkgOr(ax.Pkg, pkg), where: "axiom " + ax.Name}
		em.emit("(assert " + env.evalBool(ax.Expr) + ") ; axiom " + ax.Name)
		em.Assumed["axiom "+ax.Name+": "+ax.Text] = true
	}
	env := &Env{ex: ex, st: st, old: st, vars: map[string]Val{}, pkg: pkg, where: "lemma " + name}
	goal := env.evalBool(lm.Expr)
	ob := &Obligation{Name: "lemma " + name, Kind: "lemma", Func: "lemma " + name, Prefix: len(em.lines), PC: "true", Goal: goal}
	em.Obls = append(em.Obls, ob)
	return em, nil
}

// ExpandTables turns every "ginv_table <global>" directive into a package invariant transcribed mechanically from
// the composite literal initialising that global (keys and values evaluated by go/types constant folding):
// table[k] == v for every listed entry, and the zero value everywhere else. The invariant is then PROVED against the
// SSA code of the package initialiser like any other ginv.
func (eng *Engine) ExpandTables() {
	for _, tb := range eng.CS.Tables {
		p := eng.byPath[tb.Pkg]
		if p == nil {
			eng.errorf("%s:%d: ginv_table: package %s not loaded", tb.File, tb.Line, tb.Pkg)
			continue
		}
		var lit *ast.CompositeLit
		for _, f := range p.Syntax {
			for _, d := range f.Decls {
				gd, ok := d.(*ast.GenDecl)
				if !ok || gd.Tok != token.VAR {
					continue
				}
				for _, sp := range gd.Specs {
					vs := sp.(*ast.ValueSpec)
					for i, n := range vs.Names {
						if n.Name == tb.Name && i < len(vs.Values) {
							lit, _ = vs.Values[i].(*ast.CompositeLit)
						}
					}
				}
			}
		}
		if lit == nil {
			eng.errorf("%s:%d: ginv_table: no composite literal initialises %s", tb.File, tb.Line, tb.Name)
			continue
		}
		var conj []string
		var keys []string
		next := int64(0)
		bad := false
		for _, el := range lit.Elts {
			val := el
			if kv, ok := el.(*ast.KeyValueExpr); ok {
				tv := p.TypesInfo.Types[kv.Key]
				if tv.Value == nil || tv.Value.Kind() != constant.Int {
					bad = true
					break
				}
				next, _ = constant.Int64Val(tv.Value)
				val = kv.Value
			}
			tv := p.TypesInfo.Types[val]
			if tv.Value == nil {
				bad = true
				break
			}
			var vtext string
			switch tv.Value.Kind() {
			case constant.String:
				vtext = strconv.Quote(constant.StringVal(tv.Value))
			case constant.Int:
				vtext = tv.Value.ExactString()
			case constant.Bool:
				vtext = tv.Value.ExactString()
			default:
				bad = true
			}
			conj = append(conj, fmt.Sprintf("%s[%d] == %s", tb.Name, next, vtext))
			keys = append(keys, fmt.Sprintf("i != %d", next))
			next++
		}
		if bad {
			eng.errorf("%s:%d: ginv_table %s: non-constant key or value", tb.File, tb.Line, tb.Name)
			continue
		}
		zero := `""`
		at, isArr := p.TypesInfo.TypeOf(lit).Underlying().(*types.Array)
		if !isArr {
			eng.errorf("%s:%d: ginv_table %s: not an array", tb.File, tb.Line, tb.Name)
			continue
		}
		if b, ok := at.Elem().Underlying().(*types.Basic); ok && b.Info()&types.IsString == 0 {
			zero = "0"
			if b.Info()&types.IsBoolean != 0 {
				zero = "false"
			}
		}
		if at.Len() > 4096 {
			eng.errorf("%s:%d: ginv_table %s: table too large", tb.File, tb.Line, tb.Name)
			continue
		}
		listed := map[string]bool{}
		for _, k := range keys {
			listed[strings.TrimPrefix(k, "i != ")] = true
		}
		// every index that the literal does not list holds the zero value (enumerated: the array length is a constant)
		for i := int64(0); i < at.Len(); i++ {
			if !listed[fmt.Sprint(i)] {
				conj = append(conj, fmt.Sprintf("%s[%d] == %s", tb.Name, i, zero))
			}
		}
		text := strings.Join(conj, " && ")
		e, err := ParseCExpr(text)
		if err != nil {
			eng.errorf("%s:%d: ginv_table %s: %v", tb.File, tb.Line, tb.Name, err)
			continue
		}
		eng.CS.GInvs = append(eng.CS.GInvs, &Lemma{Name: "table_" + tb.Name, Expr: e, Text: fmt.Sprintf("(%d entries of %s transcribed from its composite literal)", len(conj), tb.Name), Pkg: tb.Pkg, File: tb.File, Line: tb.Line})
	}
	eng.CS.Tables = nil
}

// ifaceContract finds the contract of an interface method: keyed by the static interface type of the receiver, or by
// the interface that declares the method (e.g. Expr.Pos is declared by the embedded Node).
func (eng *Engine) ifaceContract(recv types.Type, m *types.Func) (string, *FuncContract) {
	key := ifaceMethodKey(recv, m)
	if fc := eng.CS.Funcs[key]; fc != nil {
		return key, fc
	}
	if sig, ok := m.Type().(*types.Signature); ok && sig.Recv() != nil {
		k2 := ifaceMethodKey(sig.Recv().Type(), m)
		if fc := eng.CS.Funcs[k2]; fc != nil {
			return k2, fc
		}
	}
	// an interface contract on a type that declares this very method object (embedding keeps the object)
	for k, fc := range eng.CS.Funcs {
		if !fc.Iface || !strings.HasSuffix(k, "."+m.Name()) {
			continue
		}
		rest := strings.TrimSuffix(k, "."+m.Name())
		i := strings.LastIndex(rest, ".")
		if i < 0 {
			continue
		}
		pkg := eng.typesPkg(rest[:i])
		if pkg == nil {
			continue
		}
		tn, ok := pkg.Scope().Lookup(rest[i+1:]).(*types.TypeName)
		if !ok {
			continue
		}
		it, ok := tn.Type().Underlying().(*types.Interface)
		if !ok {
			continue
		}
		for j := 0; j < it.NumMethods(); j++ {
			if im := it.Method(j); im == m || (im.Name() == m.Name() && im.Pos() == m.Pos()) {
				return k, fc
			}
		}
	}
	return key, nil
}

// parseTypeText resolves a Go type written in a contract: handles *T, []T and pkg.T with pkg an import of the
// contract's package (types.Eval alone only sees the package scope, not file-level imports).
func (env *Env) parseTypeText(text string) (types.Type, bool) {
	text = strings.TrimSpace(text)
	switch {
	case strings.HasPrefix(text, "*"):
		t, ok := env.parseTypeText(text[1:])
		if !ok {
			return nil, false
		}
		return types.NewPointer(t), true
	case strings.HasPrefix(text, "[]"):
		t, ok := env.parseTypeText(text[2:])
		if !ok {
			return nil, false
		}
		return types.NewSlice(t), true
	}
	if i := strings.Index(text, "."); i > 0 && !strings.ContainsAny(text, "[]{}() ") {
		if pkg := env.importedPkg(text[:i]); pkg != nil {
			if tn, ok := pkg.Scope().Lookup(text[i+1:]).(*types.TypeName); ok {
				return tn.Type(), true
			}
		}
		return nil, false
	}
	return nil, false
}

// LoopTable lists the natural loops of a function with the ordinals loop contracts refer to.
func LoopTable(eng *Engine, fn *ssa.Function) []string {
	var out []string
	for _, li := range findLoops(fn) {
		out = append(out, fmt.Sprintf("%s#%d  head block %d (%s) at %s", funcKey(fn), li.ordinal, li.head.Index, li.head.Comment, eng.Fset.Position(firstPos(li.head))))
	}
	return out
}

func importsTransitively(p *types.Package, path string, seen map[*types.Package]bool) bool {
	if seen[p] {
		return false
	}
	seen[p] = true
	for _, imp := range p.Imports() {
		if imp.Path() == path || importsTransitively(imp, path, seen) {
			return true
		}
	}
	return false
}
