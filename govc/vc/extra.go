package vc

import (
	"fmt"
	"strings"

	"golang.org/x/tools/go/ssa"
)

// KFExcept is the recorded failing class of a known finding, as a contract-language condition evaluated
// at the obligation's program point.
type KFExcept struct {
	Except string
	What   string
}

func CountInstrs(fn *ssa.Function) int {
	n := 0
	for _, b := range fn.Blocks {
		n += len(b.Instrs)
	}
	return n
}

// applyKnownFindings restricts an obligation to the complement of the recorded failing classes.
func (ex *Exec) applyKnownFindings(ob *Obligation) {
	kfs := ex.eng.KnownFindings[ob.Name]
	if len(kfs) == 0 {
		return
	}
	r := ex.root()
	var whats []string
	for _, k := range kfs {
		whats = append(whats, k.What)
		if strings.TrimSpace(k.Except) == "" || k.Except == "true" {
			// the whole obligation is a recorded finding
			ob.Extra = append(ob.Extra, "(assert false)")
			continue
		}
		e, err := ParseCExpr(k.Except)
		if err != nil {
			ex.eng.errorf("known finding %s: %v", ob.Name, err)
			continue
		}
		env := &Env{ex: ex, st: ex.curSt, old: r.entrySt, vars: map[string]Val{}, fn: ex.fn, pkg: ex.fn.Pkg.Pkg, where: "known finding " + ob.Name}
		func() {
			defer func() {
				if rec := recover(); rec != nil {
					if ce, ok := rec.(cerr); ok {
						ex.eng.errorf("known finding %s: %s", ob.Name, ce.msg)
						return
					}
					panic(rec)
				}
			}()
			ob.Extra = append(ob.Extra, "(assert (not "+env.evalBool(e)+"))")
		}()
	}
	ob.KnownFinding = strings.Join(whats, "; ")
}

// VerifyLemma proves a closed specification-level formula.
func (eng *Engine) VerifyLemma(name string) (em *Emitter, err error) {
	var lm *Lemma
	for _, l := range eng.CS.Lemmas {
		if l.Name == name || l.Pkg+"."+l.Name == name {
			lm = l
		}
	}
	if lm == nil {
		return nil, fmt.Errorf("no lemma %s", name)
	}
	em = NewEmitter()
	pkg := eng.typesPkg(lm.Pkg)
	if pkg == nil && len(eng.Pkgs) > 0 {
		pkg = eng.Pkgs[0].Types
	}
	ex := &Exec{eng: eng, em: em, key: "lemma " + name, vals: map[ssa.Value]Val{}, counts: map[string]int{}, names: map[string]int{},
		params: map[string]Val{}, usedContracts: map[string]bool{}, vstrs: map[string]*VStr{}, assignsAll: true}
	defer func() {
		if r := recover(); r != nil {
			switch e := r.(type) {
			case unsupported:
				err = fmt.Errorf("lemma %s: unsupported: %s", name, e.msg)
			case cerr:
				err = fmt.Errorf("lemma %s: contract error: %s", name, e.msg)
			default:
				panic(r)
			}
		}
	}()
	st := newState()
	ex.curSt, ex.curPC, ex.entrySt = st, "true", st
	for _, ax := range eng.CS.Axioms {
		env := &Env{ex: ex, st: st, old: st, vars: map[string]Val{}, pkg: eng.typesPkgOr(ax.Pkg, pkg), where: "axiom " + ax.Name}
		em.emit("(assert " + env.evalBool(ax.Expr) + ") ; axiom " + ax.Name)
		em.Assumed["axiom "+ax.Name+": "+ax.Text] = true
	}
	env := &Env{ex: ex, st: st, old: st, vars: map[string]Val{}, pkg: pkg, where: "lemma " + name}
	goal := env.evalBool(lm.Expr)
	ob := &Obligation{Name: "lemma " + name, Kind: "lemma", Func: "lemma " + name, Prefix: len(em.lines), PC: "true", Goal: goal}
	em.Obls = append(em.Obls, ob)
	return em, nil
}
