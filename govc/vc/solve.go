package vc

import (
	"bytes"
	"context"
	"crypto/sha256"
	"fmt"
	"os"
	"os/exec"
	"path/filepath"
	"strings"
	"sync"
	"time"
)

type SolveResult struct {
	Status  string // unsat, sat, unknown, timeout, error
	Backend string
	Seconds float64
	Output  string // solver output (model when sat)
	File    string
	All     map[string]string // backend -> status
	Candidate string          // model found with quantified assumptions dropped (candidate counterexample)
}

type Solver struct {
	Dir     string // where SMT files are written
	Timeout time.Duration
	Jobs    int
	Seed    int
	Cross   bool // run every backend and require agreement
	Keep    bool
}

// Render produces the SMT-LIB text of one obligation.
func (em *Emitter) Render(ob *Obligation, withModel bool) string {
	var b strings.Builder
	b.WriteString("(set-option :produce-models true)\n(set-logic ALL)\n")
	for _, l := range em.pre {
		b.WriteString(l)
		b.WriteByte('\n')
	}
	for _, l := range em.lines[:ob.Prefix] {
		b.WriteString(l)
		b.WriteByte('\n')
	}
	for _, l := range ob.Extra {
		b.WriteString(l)
		b.WriteByte('\n')
	}
	if ob.ExpectSat {
		if ob.PC != "" && ob.PC != "true" {
			fmt.Fprintf(&b, "(assert %s)\n", ob.PC)
		}
	} else {
		fmt.Fprintf(&b, "(assert (not %s))\n", implies(ob.PC, ob.Goal))
	}
	b.WriteString("(check-sat)\n")
	if withModel {
		b.WriteString("(get-model)\n")
	}
	return b.String()
}

type backend struct {
	name string
	args func(file string, timeout time.Duration, seed int) []string
}

var backends = []backend{
	{"z3-new", func(f string, t time.Duration, seed int) []string {
		return []string{"z3-new", fmt.Sprintf("-t:%d", t.Milliseconds()), fmt.Sprintf("-T:%d", int(t.Seconds())+1), fmt.Sprintf("smt.random_seed=%d", seed), f}
	}},
	{"z3", func(f string, t time.Duration, seed int) []string {
		return []string{"z3", fmt.Sprintf("-t:%d", t.Milliseconds()), fmt.Sprintf("-T:%d", int(t.Seconds())+1), fmt.Sprintf("smt.random_seed=%d", seed), f}
	}},
	{"cvc5", func(f string, t time.Duration, seed int) []string {
		return []string{"cvc5", fmt.Sprintf("--tlimit=%d", t.Milliseconds()), fmt.Sprintf("--seed=%d", seed), f}
	}},
}

func runBackend(ctx context.Context, be backend, file string, timeout time.Duration, seed int) (status, out string, secs float64) {
	args := be.args(file, timeout, seed)
	cctx, cancel := context.WithTimeout(ctx, timeout+2*time.Second)
	defer cancel()
	cmd := exec.CommandContext(cctx, args[0], args[1:]...)
	var buf bytes.Buffer
	cmd.Stdout = &buf
	cmd.Stderr = &buf
	t0 := time.Now()
	_ = cmd.Run()
	secs = time.Since(t0).Seconds()
	out = buf.String()
	first := strings.TrimSpace(strings.SplitN(out, "\n", 2)[0])
	switch first {
	case "unsat", "sat", "unknown":
		return first, out, secs
	case "timeout":
		return "timeout", out, secs
	}
	if cctx.Err() != nil {
		return "timeout", out, secs
	}
	if strings.Contains(out, "unsat") && !strings.Contains(out, "error") {
		return "unsat", out, secs
	}
	return "error", out, secs
}

// Solve discharges one rendered obligation: z3-new first, the other back ends raced if it does not answer.
func (s *Solver) Solve(name, text string) *SolveResult {
	sum := sha256.Sum256([]byte(text))
	file := filepath.Join(s.Dir, fmt.Sprintf("%x.smt2", sum[:8]))
	if err := os.WriteFile(file, []byte(text), 0o644); err != nil {
		return &SolveResult{Status: "error", Output: err.Error()}
	}
	res := &SolveResult{File: file, All: map[string]string{}}
	ctx := context.Background()
	quick := s.Timeout
	if quick > 4*time.Second && !s.Cross {
		quick = 4 * time.Second
	}
	st, out, secs := runBackend(ctx, backends[0], file, quick, s.Seed)
	res.All["z3-new"] = st
	res.Seconds += secs
	if (st == "unsat" || st == "sat") && !s.Cross {
		res.Status, res.Backend, res.Output = st, "z3-new", out
		return res
	}
	first := st
	firstOut := out
	// race the rest (and z3-new again with the full timeout if it was cut short)
	type r struct {
		be        string
		st, out   string
		secs      float64
	}
	ch := make(chan r, 4)
	cctx, cancel := context.WithCancel(ctx)
	defer cancel()
	n := 0
	usesLambda := strings.Contains(text, "(lambda ")
	for i, be := range backends {
		if i == 0 && (quick == s.Timeout || s.Cross) {
			continue
		}
		if be.name == "cvc5" && usesLambda {
			continue
		}
		n++
		go func(be backend) {
			st, out, secs := runBackend(cctx, be, file, s.Timeout, s.Seed)
			ch <- r{be.name, st, out, secs}
		}(be)
	}
	if s.Cross && (first == "unsat" || first == "sat") {
		res.Status, res.Backend, res.Output = first, "z3-new", firstOut
	}
	for i := 0; i < n; i++ {
		x := <-ch
		res.All[x.be] = x.st
		res.Seconds += x.secs
		if x.st == "unsat" || x.st == "sat" {
			if res.Status == "" {
				res.Status, res.Backend, res.Output = x.st, x.be, x.out
				if !s.Cross {
					cancel()
					return res
				}
			} else if res.Status != x.st && s.Cross {
				res.Status = "error"
				res.Output = fmt.Sprintf("solver disagreement: %v", res.All)
				return res
			}
		}
	}
	if res.Status == "" {
		res.Status = "unknown"
		for _, v := range res.All {
			if v == "timeout" {
				res.Status = "timeout"
			}
		}
		if res.All["z3-new"] == "error" {
			res.Status = "error" // malformed VC: an engine error, never a verdict
		}
		res.Output = firstOut
	}
	return res
}

// SolveAll discharges all obligations of an emitter in parallel.
func (s *Solver) SolveAll(em *Emitter, obls []*Obligation) {
	jobs := s.Jobs
	if jobs <= 0 {
		jobs = 8
	}
	sem := make(chan struct{}, jobs)
	var wg sync.WaitGroup
	for _, ob := range obls {
		wg.Add(1)
		sem <- struct{}{}
		go func(ob *Obligation) {
			defer wg.Done()
			defer func() { <-sem }()
			if ob.ExpectSat {
				// vacuity guard: only a definite "unsat" is a failure; a short single-solver run is enough
				text := em.Render(ob, false)
				sum := sha256.Sum256([]byte(text))
				file := filepath.Join(s.Dir, fmt.Sprintf("%x.smt2", sum[:8]))
				os.WriteFile(file, []byte(text), 0o644)
				st, out, secs := runBackend(context.Background(), backends[0], file, 1*time.Second, s.Seed)
				ob.Result = &SolveResult{Status: st, Backend: "z3-new", Seconds: secs, Output: out, File: file, All: map[string]string{"z3-new": st}}
				return
			}
			text := em.Render(ob, true)
			ob.Result = s.Solve(ob.Name, text)
			if ob.Result.Status == "unknown" || ob.Result.Status == "timeout" {
				// quantified assumptions keep solvers from answering "sat": look for a candidate counterexample with
				// them dropped (a candidate only — it may violate a dropped assumption; the replay on the real code decides)
				lines := strings.Split(text, "\n")
				last := -1
				for i, l := range lines {
					if strings.HasPrefix(l, "(assert") {
						last = i
					}
				}
				var kept []string
				for i, l := range lines {
					if i != last && strings.HasPrefix(l, "(assert") && (strings.Contains(l, "(forall ") || strings.Contains(l, "(exists ")) {
						continue
					}
					kept = append(kept, l)
				}
				stripped := strings.Join(kept, "\n")
				sum := sha256.Sum256([]byte(stripped))
				file := filepath.Join(s.Dir, fmt.Sprintf("%x.cand.smt2", sum[:8]))
				os.WriteFile(file, []byte(stripped), 0o644)
				st, out, secs := runBackend(context.Background(), backends[0], file, 5*time.Second, s.Seed)
				ob.Result.Seconds += secs
				if st == "sat" {
					ob.Result.Candidate = out
				}
			}
		}(ob)
	}
	wg.Wait()
}
