package vc

import (
	"fmt"
	"go/token"
	"go/types"
	"strings"

	"golang.org/x/tools/go/ssa"
)

type unsupported struct{ msg string }

func (ex *Exec) unsup(f string, a ...any) {
	panic(unsupported{fmt.Sprintf(f, a...)})
}

const rBox rootKind = 10

func deref(t types.Type) types.Type {
	if p, ok := t.Underlying().(*types.Pointer); ok {
		return p.Elem()
	}
	return nil
}

// top-of-heap allocation counter
func (ex *Exec) top(st *State) string { return ex.em.heapGet(st, "top", sInt) }

// allocRef returns a fresh, non-nil, previously unallocated reference.
func (ex *Exec) allocRef(st *State, base string) string {
	top := ex.top(st)
	ref := ex.em.define(base, sInt, top)
	ex.em.heapSet(st, "top", sInt, add(top, "1"))
	return ref
}

// newObject allocates and zero-initialises a heap object of type t, returns the pointer value.
func (ex *Exec) newObject(st *State, t types.Type, base string) Val {
	ref := ex.allocRef(st, "ref_"+base)
	pv := Val{E: ref, S: sInt, T: types.NewPointer(t)}
	ex.storePlain(st, pv, ex.em.zero(t))
	return pv
}

// storePlain stores a whole value through a plain reference.
func (ex *Exec) storePlain(st *State, p Val, v Val) {
	t := deref(p.T)
	em := ex.em
	switch u := t.Underlying().(type) {
	case *types.Struct:
		si := em.structSort(t)
		for i := 0; i < u.NumFields(); i++ {
			hn := fieldHeapName(t, i)
			hs := "(Array Int " + si.FSorts[i] + ")"
			fv := fmt.Sprintf("(%s %s)", si.Fields[i], v.E)
			if v.E == em.zero(t).E {
				fv = em.zero(u.Field(i).Type()).E
			}
			em.heapSet(st, hn, hs, storeT(em.heapGet(st, hn, hs), p.E, fv))
		}
	case *types.Array:
		hn := elemHeapName(u.Elem())
		hs := "(Array Int (Array Int " + em.sortOf(u.Elem()) + "))"
		em.heapSet(st, hn, hs, storeT(em.heapGet(st, hn, hs), p.E, v.E))
	default:
		hn := boxHeapName(t)
		hs := "(Array Int " + em.sortOf(t) + ")"
		em.heapSet(st, hn, hs, storeT(em.heapGet(st, hn, hs), p.E, v.E))
	}
}

func (ex *Exec) loadPlain(st *State, p Val) Val {
	t := deref(p.T)
	em := ex.em
	switch u := t.Underlying().(type) {
	case *types.Struct:
		si := em.structSort(t)
		var parts []string
		for i := 0; i < u.NumFields(); i++ {
			hn := fieldHeapName(t, i)
			hs := "(Array Int " + si.FSorts[i] + ")"
			parts = append(parts, selectT(em.heapGet(st, hn, hs), p.E))
		}
		e := "mk_" + si.Sort
		if len(parts) > 0 {
			e = fmt.Sprintf("(mk_%s %s)", si.Sort, strings.Join(parts, " "))
		}
		return Val{E: e, S: si.Sort, T: t}
	case *types.Array:
		hn := elemHeapName(u.Elem())
		hs := "(Array Int (Array Int " + em.sortOf(u.Elem()) + "))"
		return Val{E: selectT(em.heapGet(st, hn, hs), p.E), S: em.sortOf(t), T: t}
	default:
		hn := boxHeapName(t)
		hs := "(Array Int " + em.sortOf(t) + ")"
		return Val{E: selectT(em.heapGet(st, hn, hs), p.E), S: em.sortOf(t), T: t}
	}
}

// toPtr turns a pointer value into a root-based Ptr (for plain refs of non-struct pointee: a box).
func (ex *Exec) toPtr(p Val) *Ptr {
	if p.P != nil {
		return p.P
	}
	if p.E == "" {
		ex.unsup("use of a merged interior pointer")
	}
	t := deref(p.T)
	return &Ptr{Root: rBox, Ref: p.E, RootT: t, Elem: t}
}

func (ex *Exec) readRoot(st *State, p *Ptr) Val {
	em := ex.em
	switch p.Root {
	case rCell:
		c := p.Cell.(*ssa.Alloc)
		v, ok := st.cells[c]
		if !ok {
			ex.unsup("read of dead cell %s (%s)", c.Name(), c.Comment)
		}
		return v
	case rGlobal:
		g := p.Glob.(*ssa.Global)
		name := "G_" + sanitize(pkgQualifier(g.Pkg.Pkg)+"_"+g.Name())
		srt := em.sortOf(p.RootT)
		return Val{E: em.heapGet(st, name, srt), S: srt, T: p.RootT}
	case rField:
		st_ := p.Struct.Underlying().(*types.Struct)
		ft := st_.Field(p.Field).Type()
		hn := fieldHeapName(p.Struct, p.Field)
		hs := "(Array Int " + em.sortOf(ft) + ")"
		return Val{E: selectT(em.heapGet(st, hn, hs), p.Ref), S: em.sortOf(ft), T: ft}
	case rElem:
		hn := elemHeapName(p.RootT)
		hs := "(Array Int (Array Int " + em.sortOf(p.RootT) + "))"
		return Val{E: selectT(selectT(em.heapGet(st, hn, hs), p.Ref), p.Idx), S: em.sortOf(p.RootT), T: p.RootT}
	case rBox:
		return ex.loadPlain(st, Val{E: p.Ref, S: sInt, T: types.NewPointer(p.RootT)})
	}
	panic("bad root")
}

func (ex *Exec) writeRoot(st *State, p *Ptr, v Val) {
	em := ex.em
	switch p.Root {
	case rCell:
		c := p.Cell.(*ssa.Alloc)
		v.T = p.RootT
		st.cells[c] = v
	case rGlobal:
		g := p.Glob.(*ssa.Global)
		name := "G_" + sanitize(pkgQualifier(g.Pkg.Pkg)+"_"+g.Name())
		em.heapSet(st, name, em.sortOf(p.RootT), v.E)
	case rField:
		st_ := p.Struct.Underlying().(*types.Struct)
		ft := st_.Field(p.Field).Type()
		hn := fieldHeapName(p.Struct, p.Field)
		hs := "(Array Int " + em.sortOf(ft) + ")"
		em.heapSet(st, hn, hs, storeT(em.heapGet(st, hn, hs), p.Ref, v.E))
	case rElem:
		hn := elemHeapName(p.RootT)
		hs := "(Array Int (Array Int " + em.sortOf(p.RootT) + "))"
		h := em.heapGet(st, hn, hs)
		em.heapSet(st, hn, hs, storeT(h, p.Ref, storeT(selectT(h, p.Ref), p.Idx, v.E)))
	case rBox:
		ex.storePlain(st, Val{E: p.Ref, S: sInt, T: types.NewPointer(p.RootT)}, v)
	}
}

func (ex *Exec) getPath(v Val, pe pathElem) Val {
	em := ex.em
	if pe.Field >= 0 {
		si := em.structSort(pe.T)
		ft := si.T.Field(pe.Field).Type()
		return Val{E: fmt.Sprintf("(%s %s)", si.Fields[pe.Field], v.E), S: si.FSorts[pe.Field], T: ft}
	}
	a := pe.T.Underlying().(*types.Array)
	return Val{E: selectT(v.E, pe.Index), S: em.sortOf(a.Elem()), T: a.Elem()}
}

func (ex *Exec) setPath(cur Val, path []pathElem, nv Val) Val {
	if len(path) == 0 {
		nv.T = cur.T
		return nv
	}
	pe := path[0]
	child := ex.setPath(ex.getPath(cur, pe), path[1:], nv)
	em := ex.em
	if pe.Field >= 0 {
		si := em.structSort(pe.T)
		var parts []string
		for i := range si.Fields {
			if i == pe.Field {
				parts = append(parts, child.E)
			} else {
				parts = append(parts, fmt.Sprintf("(%s %s)", si.Fields[i], cur.E))
			}
		}
		return Val{E: fmt.Sprintf("(mk_%s %s)", si.Sort, strings.Join(parts, " ")), S: cur.S, T: cur.T}
	}
	return Val{E: storeT(cur.E, pe.Index, child.E), S: cur.S, T: cur.T}
}

// load through a pointer value, with nil obligation for plain refs.
func (ex *Exec) load(st *State, p Val, pc string, pos token.Pos) Val {
	if p.P == nil {
		if p.E == "" {
			ex.unsup("load through merged interior pointer")
		}
		ex.oblige("nil", pc, fmt.Sprintf("(not (= %s 0))", p.E), pos, "load")
		v := ex.loadPlain(st, p)
		return ex.named(v, "ld")
	}
	v := ex.readRoot(st, p.P)
	for _, pe := range p.P.Path {
		v = ex.getPath(v, pe)
	}
	v.T = p.P.Elem
	return ex.named(v, "ld")
}

// named gives big terms a name and assumes the type invariant of loaded values.
func (ex *Exec) named(v Val, base string) Val {
	if v.E == "" {
		return v
	}
	v.E = ex.em.define(base, v.S, v.E)
	if ex.root().specMode > 0 {
		return v
	}
	// type invariant of the value — guarded by the current path: cells may hold values computed on this path only
	if w := ex.em.wf(v); w != "" {
		k := "wf:" + ex.curPC + ":" + v.E
		if !ex.em.declared[k] {
			ex.em.declared[k] = true
			ex.em.assume(ex.curPC, w)
		}
	}
	return v
}

func (ex *Exec) store(st *State, p Val, v Val, pc string, pos token.Pos) {
	if v.E == "" && v.P == nil && v.Fn == nil && v.Tuple == nil {
		ex.unsup("store of unrepresentable value")
	}
	if p.P == nil {
		if p.E == "" {
			ex.unsup("store through merged interior pointer")
		}
		ex.oblige("nil", pc, fmt.Sprintf("(not (= %s 0))", p.E), pos, "store")
		ex.frameCheck(st, &Ptr{Root: rBox, Ref: p.E, RootT: deref(p.T)}, pc, pos)
		ex.storePlain(st, p, ex.materialize(v))
		return
	}
	pp := p.P
	if pp.Root != rCell {
		v = ex.materialize(v)
		ex.frameCheck(st, pp, pc, pos)
	}
	if len(pp.Path) == 0 {
		ex.writeRoot(st, pp, v)
		return
	}
	v = ex.materialize(v)
	root := ex.readRoot(st, pp)
	ex.writeRoot(st, pp, ex.setPath(root, pp.Path, v))
}

// materialize makes sure a value has an SMT term (cells may hold meta pointers; memory may not).
func (ex *Exec) materialize(v Val) Val {
	if v.E != "" {
		return v
	}
	if v.Fn != nil {
		// function values in memory: identified by an uninterpreted constant per function
		f := v.Fn.Fn.(*ssa.Function)
		if len(v.Fn.Bindings) == 0 {
			name := "fn_" + sanitize(f.String())
			ex.em.globalConst(name, sInt)
			ex.em.global(fmt.Sprintf("(assert (> %s 0))", name))
			v.E = name
			return v
		}
		v.E = ex.em.newConst("closure", sInt)
		ex.em.emit(fmt.Sprintf("(assert (> %s 0))", v.E))
		return v
	}
	if v.P != nil {
		ex.unsup("interior pointer escapes to memory")
	}
	ex.unsup("value without term")
	return v
}
