(set-option :produce-models true)
(set-logic ALL)
(declare-sort Str 0)
(declare-fun slen (Str) Int)
(declare-fun sat (Str Int) Int)
(declare-datatypes ((Slice 0)) (((mk_slice (s_arr Int) (s_off Int) (s_len Int) (s_cap Int)))))
(declare-datatypes ((Iface 0)) (((mk_iface (i_tag Int) (i_val Int)))))
(assert (forall ((s Str)) (! (>= (slen s) 0) :pattern ((slen s)))))
(assert (forall ((s Str) (i Int)) (! (and (<= 0 (sat s i)) (<= (sat s i) 255)) :pattern ((sat s i)))))
(declare-fun box_Str (Str) Int)
(declare-fun unbox_Str (Int) Str)
(assert (forall ((s Str)) (! (= (unbox_Str (box_Str s)) s) :pattern ((box_Str s)))))
(declare-fun box_Slice (Slice) Int)
(declare-fun unbox_Slice (Int) Slice)
(assert (forall ((s Slice)) (! (= (unbox_Slice (box_Slice s)) s) :pattern ((box_Slice s)))))
(declare-const str_empty Str)
(assert (= (slen str_empty) 0))
(declare-const top!0 Int)
(declare-fun u_rank (Iface) Int)
(assert (forall ((a0 Iface)) (! (and (<= (- 9223372036854775808) (u_rank a0)) (<= (u_rank a0) 9223372036854775807)) :pattern ((u_rank a0)))))
(declare-fun u_rk (Iface) Int)
(assert (forall ((a0 Iface)) (! (and (<= (- 9223372036854775808) (u_rk a0)) (<= (u_rk a0) 9223372036854775807)) :pattern ((u_rk a0)))))
(declare-const G_tpl_token_tokens!0 (Array Int Str))
(declare-const strc_1 Str) ; "ILLEGAL"
(assert (= (slen strc_1) 7))
(assert (= (sat strc_1 0) 73))
(assert (= (sat strc_1 1) 76))
(assert (= (sat strc_1 2) 76))
(assert (= (sat strc_1 3) 69))
(assert (= (sat strc_1 4) 71))
(assert (= (sat strc_1 5) 65))
(assert (= (sat strc_1 6) 76))
(declare-const strc_2 Str) ; "EOF"
(assert (= (slen strc_2) 3))
(assert (= (sat strc_2 0) 69))
(assert (= (sat strc_2 1) 79))
(assert (= (sat strc_2 2) 70))
(declare-const strc_3 Str) ; "COMMENT"
(assert (= (slen strc_3) 7))
(assert (= (sat strc_3 0) 67))
(assert (= (sat strc_3 1) 79))
(assert (= (sat strc_3 2) 77))
(assert (= (sat strc_3 3) 77))
(assert (= (sat strc_3 4) 69))
(assert (= (sat strc_3 5) 78))
(assert (= (sat strc_3 6) 84))
(declare-const strc_4 Str) ; "IDENT"
(assert (= (slen strc_4) 5))
(assert (= (sat strc_4 0) 73))
(assert (= (sat strc_4 1) 68))
(assert (= (sat strc_4 2) 69))
(assert (= (sat strc_4 3) 78))
(assert (= (sat strc_4 4) 84))
(declare-const strc_5 Str) ; "INT"
(assert (= (slen strc_5) 3))
(assert (= (sat strc_5 0) 73))
(assert (= (sat strc_5 1) 78))
(assert (= (sat strc_5 2) 84))
(declare-const strc_6 Str) ; "FLOAT"
(assert (= (slen strc_6) 5))
(assert (= (sat strc_6 0) 70))
(assert (= (sat strc_6 1) 76))
(assert (= (sat strc_6 2) 79))
(assert (= (sat strc_6 3) 65))
(assert (= (sat strc_6 4) 84))
(declare-const strc_7 Str) ; "IMAG"
(assert (= (slen strc_7) 4))
(assert (= (sat strc_7 0) 73))
(assert (= (sat strc_7 1) 77))
(assert (= (sat strc_7 2) 65))
(assert (= (sat strc_7 3) 71))
(declare-const strc_8 Str) ; "CHAR"
(assert (= (slen strc_8) 4))
(assert (= (sat strc_8 0) 67))
(assert (= (sat strc_8 1) 72))
(assert (= (sat strc_8 2) 65))
(assert (= (sat strc_8 3) 82))
(declare-const strc_9 Str) ; "STRING"
(assert (= (slen strc_9) 6))
(assert (= (sat strc_9 0) 83))
(assert (= (sat strc_9 1) 84))
(assert (= (sat strc_9 2) 82))
(assert (= (sat strc_9 3) 73))
(assert (= (sat strc_9 4) 78))
(assert (= (sat strc_9 5) 71))
(declare-const strc_10 Str) ; "RAT"
(assert (= (slen strc_10) 3))
(assert (= (sat strc_10 0) 82))
(assert (= (sat strc_10 1) 65))
(assert (= (sat strc_10 2) 84))
(declare-const strc_11 Str) ; "UNIT"
(assert (= (slen strc_11) 4))
(assert (= (sat strc_11 0) 85))
(assert (= (sat strc_11 1) 78))
(assert (= (sat strc_11 2) 73))
(assert (= (sat strc_11 3) 84))
(declare-const strc_12 Str) ; "+"
(assert (= (slen strc_12) 1))
(assert (= (sat strc_12 0) 43))
(declare-const strc_13 Str) ; "-"
(assert (= (slen strc_13) 1))
(assert (= (sat strc_13 0) 45))
(declare-const strc_14 Str) ; "*"
(assert (= (slen strc_14) 1))
(assert (= (sat strc_14 0) 42))
(declare-const strc_15 Str) ; "/"
(assert (= (slen strc_15) 1))
(assert (= (sat strc_15 0) 47))
(declare-const strc_16 Str) ; "%"
(assert (= (slen strc_16) 1))
(assert (= (sat strc_16 0) 37))
(declare-const strc_17 Str) ; "&"
(assert (= (slen strc_17) 1))
(assert (= (sat strc_17 0) 38))
(declare-const strc_18 Str) ; "|"
(assert (= (slen strc_18) 1))
(assert (= (sat strc_18 0) 124))
(declare-const strc_19 Str) ; "^"
(assert (= (slen strc_19) 1))
(assert (= (sat strc_19 0) 94))
(declare-const strc_20 Str) ; "<"
(assert (= (slen strc_20) 1))
(assert (= (sat strc_20 0) 60))
(declare-const strc_21 Str) ; ">"
(assert (= (slen strc_21) 1))
(assert (= (sat strc_21 0) 62))
(declare-const strc_22 Str) ; "="
(assert (= (slen strc_22) 1))
(assert (= (sat strc_22 0) 61))
(declare-const strc_23 Str) ; "!"
(assert (= (slen strc_23) 1))
(assert (= (sat strc_23 0) 33))
(declare-const strc_24 Str) ; "("
(assert (= (slen strc_24) 1))
(assert (= (sat strc_24 0) 40))
(declare-const strc_25 Str) ; "["
(assert (= (slen strc_25) 1))
(assert (= (sat strc_25 0) 91))
(declare-const strc_26 Str) ; "{"
(assert (= (slen strc_26) 1))
(assert (= (sat strc_26 0) 123))
(declare-const strc_27 Str) ; ","
(assert (= (slen strc_27) 1))
(assert (= (sat strc_27 0) 44))
(declare-const strc_28 Str) ; "."
(assert (= (slen strc_28) 1))
(assert (= (sat strc_28 0) 46))
(declare-const strc_29 Str) ; ")"
(assert (= (slen strc_29) 1))
(assert (= (sat strc_29 0) 41))
(declare-const strc_30 Str) ; "]"
(assert (= (slen strc_30) 1))
(assert (= (sat strc_30 0) 93))
(declare-const strc_31 Str) ; "}"
(assert (= (slen strc_31) 1))
(assert (= (sat strc_31 0) 125))
(declare-const strc_32 Str) ; ";"
(assert (= (slen strc_32) 1))
(assert (= (sat strc_32 0) 59))
(declare-const strc_33 Str) ; ":"
(assert (= (slen strc_33) 1))
(assert (= (sat strc_33 0) 58))
(declare-const strc_34 Str) ; "?"
(assert (= (slen strc_34) 1))
(assert (= (sat strc_34 0) 63))
(declare-const strc_35 Str) ; "~"
(assert (= (slen strc_35) 1))
(assert (= (sat strc_35 0) 126))
(declare-const strc_36 Str) ; "@"
(assert (= (slen strc_36) 1))
(assert (= (sat strc_36 0) 64))
(declare-const strc_37 Str) ; "$"
(assert (= (slen strc_37) 1))
(assert (= (sat strc_37 0) 36))
(declare-const strc_38 Str) ; "<<"
(assert (= (slen strc_38) 2))
(assert (= (sat strc_38 0) 60))
(assert (= (sat strc_38 1) 60))
(declare-const strc_39 Str) ; ">>"
(assert (= (slen strc_39) 2))
(assert (= (sat strc_39 0) 62))
(assert (= (sat strc_39 1) 62))
(declare-const strc_40 Str) ; "&^"
(assert (= (slen strc_40) 2))
(assert (= (sat strc_40 0) 38))
(assert (= (sat strc_40 1) 94))
(declare-const strc_41 Str) ; "+="
(assert (= (slen strc_41) 2))
(assert (= (sat strc_41 0) 43))
(assert (= (sat strc_41 1) 61))
(declare-const strc_42 Str) ; "-="
(assert (= (slen strc_42) 2))
(assert (= (sat strc_42 0) 45))
(assert (= (sat strc_42 1) 61))
(declare-const strc_43 Str) ; "*="
(assert (= (slen strc_43) 2))
(assert (= (sat strc_43 0) 42))
(assert (= (sat strc_43 1) 61))
(declare-const strc_44 Str) ; "/="
(assert (= (slen strc_44) 2))
(assert (= (sat strc_44 0) 47))
(assert (= (sat strc_44 1) 61))
(declare-const strc_45 Str) ; "%="
(assert (= (slen strc_45) 2))
(assert (= (sat strc_45 0) 37))
(assert (= (sat strc_45 1) 61))
(declare-const strc_46 Str) ; "&="
(assert (= (slen strc_46) 2))
(assert (= (sat strc_46 0) 38))
(assert (= (sat strc_46 1) 61))
(declare-const strc_47 Str) ; "|="
(assert (= (slen strc_47) 2))
(assert (= (sat strc_47 0) 124))
(assert (= (sat strc_47 1) 61))
(declare-const strc_48 Str) ; "^="
(assert (= (slen strc_48) 2))
(assert (= (sat strc_48 0) 94))
(assert (= (sat strc_48 1) 61))
(declare-const strc_49 Str) ; "<<="
(assert (= (slen strc_49) 3))
(assert (= (sat strc_49 0) 60))
(assert (= (sat strc_49 1) 60))
(assert (= (sat strc_49 2) 61))
(declare-const strc_50 Str) ; ">>="
(assert (= (slen strc_50) 3))
(assert (= (sat strc_50 0) 62))
(assert (= (sat strc_50 1) 62))
(assert (= (sat strc_50 2) 61))
(declare-const strc_51 Str) ; "&^="
(assert (= (slen strc_51) 3))
(assert (= (sat strc_51 0) 38))
(assert (= (sat strc_51 1) 94))
(assert (= (sat strc_51 2) 61))
(declare-const strc_52 Str) ; "&&"
(assert (= (slen strc_52) 2))
(assert (= (sat strc_52 0) 38))
(assert (= (sat strc_52 1) 38))
(declare-const strc_53 Str) ; "||"
(assert (= (slen strc_53) 2))
(assert (= (sat strc_53 0) 124))
(assert (= (sat strc_53 1) 124))
(declare-const strc_54 Str) ; "<-"
(assert (= (slen strc_54) 2))
(assert (= (sat strc_54 0) 60))
(assert (= (sat strc_54 1) 45))
(declare-const strc_55 Str) ; "++"
(assert (= (slen strc_55) 2))
(assert (= (sat strc_55 0) 43))
(assert (= (sat strc_55 1) 43))
(declare-const strc_56 Str) ; "--"
(assert (= (slen strc_56) 2))
(assert (= (sat strc_56 0) 45))
(assert (= (sat strc_56 1) 45))
(declare-const strc_57 Str) ; "=="
(assert (= (slen strc_57) 2))
(assert (= (sat strc_57 0) 61))
(assert (= (sat strc_57 1) 61))
(declare-const strc_58 Str) ; "!="
(assert (= (slen strc_58) 2))
(assert (= (sat strc_58 0) 33))
(assert (= (sat strc_58 1) 61))
(declare-const strc_59 Str) ; "<="
(assert (= (slen strc_59) 2))
(assert (= (sat strc_59 0) 60))
(assert (= (sat strc_59 1) 61))
(declare-const strc_60 Str) ; ">="
(assert (= (slen strc_60) 2))
(assert (= (sat strc_60 0) 62))
(assert (= (sat strc_60 1) 61))
(declare-const strc_61 Str) ; ":="
(assert (= (slen strc_61) 2))
(assert (= (sat strc_61 0) 58))
(assert (= (sat strc_61 1) 61))
(declare-const strc_62 Str) ; "..."
(assert (= (slen strc_62) 3))
(assert (= (sat strc_62 0) 46))
(assert (= (sat strc_62 1) 46))
(assert (= (sat strc_62 2) 46))
(declare-const strc_63 Str) ; "=>"
(assert (= (slen strc_63) 2))
(assert (= (sat strc_63 0) 61))
(assert (= (sat strc_63 1) 62))
(declare-const strc_64 Str) ; "->"
(assert (= (slen strc_64) 2))
(assert (= (sat strc_64 0) 45))
(assert (= (sat strc_64 1) 62))
(declare-const strc_65 Str) ; "<>"
(assert (= (slen strc_65) 2))
(assert (= (sat strc_65 0) 60))
(assert (= (sat strc_65 1) 62))
(declare-const strc_66 Str) ; "**"
(assert (= (slen strc_66) 2))
(assert (= (sat strc_66 0) 42))
(assert (= (sat strc_66 1) 42))
(assert (> top!0 0))
(assert (forall ((q_m!1 Iface)) (=> (<= 0 (i_tag q_m!1)) (>= (u_rank q_m!1) 0)))) ; axiom rankNonNeg
(assert (forall ((q_e!2 Iface)) (=> (<= 0 (i_tag q_e!2)) (>= (u_rk q_e!2) 0)))) ; axiom rkNonNeg
(assert (and (and (and (and (and (and (and (and (and (and (and (and (and (and (and (and (and (and (and (and (and (and (and (and (and (and (and (and (and (and (and (and (and (and (and (and (and (and (and (and (and (and (and (and (and (and (and (and (and (and (and (and (and (and (and (and (and (and (and (and (and (and (and (and (and (and (and (and (and (and (and (and (and (and (and (and (and (and (and (and (and (and (and (and (and (and (and (and (and (and (and (and (and (and (and (and (and (and (and (and (and (and (and (and (and (and (and (and (and (and (and (and (and (and (and (and (and (and (and (and (and (and (and (and (and (and (and (and (and (and (and (and (and (and (and (and (and (and (and (and (and (and (and (and (and (and (and (and (and (and (and (and (and (and (and (and (and (and (= (slen (select G_tpl_token_tokens!0 0)) 7) (= (sat (select G_tpl_token_tokens!0 0) 0) 73) (= (sat (select G_tpl_token_tokens!0 0) 1) 76) (= (sat (select G_tpl_token_tokens!0 0) 2) 76) (= (sat (select G_tpl_token_tokens!0 0) 3) 69) (= (sat (select G_tpl_token_tokens!0 0) 4) 71) (= (sat (select G_tpl_token_tokens!0 0) 5) 65) (= (sat (select G_tpl_token_tokens!0 0) 6) 76)) (and (= (slen (select G_tpl_token_tokens!0 1)) 3) (= (sat (select G_tpl_token_tokens!0 1) 0) 69) (= (sat (select G_tpl_token_tokens!0 1) 1) 79) (= (sat (select G_tpl_token_tokens!0 1) 2) 70))) (and (= (slen (select G_tpl_token_tokens!0 2)) 7) (= (sat (select G_tpl_token_tokens!0 2) 0) 67) (= (sat (select G_tpl_token_tokens!0 2) 1) 79) (= (sat (select G_tpl_token_tokens!0 2) 2) 77) (= (sat (select G_tpl_token_tokens!0 2) 3) 77) (= (sat (select G_tpl_token_tokens!0 2) 4) 69) (= (sat (select G_tpl_token_tokens!0 2) 5) 78) (= (sat (select G_tpl_token_tokens!0 2) 6) 84))) (and (= (slen (select G_tpl_token_tokens!0 4)) 5) (= (sat (select G_tpl_token_tokens!0 4) 0) 73) (= (sat (select G_tpl_token_tokens!0 4) 1) 68) (= (sat (select G_tpl_token_tokens!0 4) 2) 69) (= (sat (select G_tpl_token_tokens!0 4) 3) 78) (= (sat (select G_tpl_token_tokens!0 4) 4) 84))) (and (= (slen (select G_tpl_token_tokens!0 5)) 3) (= (sat (select G_tpl_token_tokens!0 5) 0) 73) (= (sat (select G_tpl_token_tokens!0 5) 1) 78) (= (sat (select G_tpl_token_tokens!0 5) 2) 84))) (and (= (slen (select G_tpl_token_tokens!0 6)) 5) (= (sat (select G_tpl_token_tokens!0 6) 0) 70) (= (sat (select G_tpl_token_tokens!0 6) 1) 76) (= (sat (select G_tpl_token_tokens!0 6) 2) 79) (= (sat (select G_tpl_token_tokens!0 6) 3) 65) (= (sat (select G_tpl_token_tokens!0 6) 4) 84))) (and (= (slen (select G_tpl_token_tokens!0 7)) 4) (= (sat (select G_tpl_token_tokens!0 7) 0) 73) (= (sat (select G_tpl_token_tokens!0 7) 1) 77) (= (sat (select G_tpl_token_tokens!0 7) 2) 65) (= (sat (select G_tpl_token_tokens!0 7) 3) 71))) (and (= (slen (select G_tpl_token_tokens!0 8)) 4) (= (sat (select G_tpl_token_tokens!0 8) 0) 67) (= (sat (select G_tpl_token_tokens!0 8) 1) 72) (= (sat (select G_tpl_token_tokens!0 8) 2) 65) (= (sat (select G_tpl_token_tokens!0 8) 3) 82))) (and (= (slen (select G_tpl_token_tokens!0 9)) 6) (= (sat (select G_tpl_token_tokens!0 9) 0) 83) (= (sat (select G_tpl_token_tokens!0 9) 1) 84) (= (sat (select G_tpl_token_tokens!0 9) 2) 82) (= (sat (select G_tpl_token_tokens!0 9) 3) 73) (= (sat (select G_tpl_token_tokens!0 9) 4) 78) (= (sat (select G_tpl_token_tokens!0 9) 5) 71))) (and (= (slen (select G_tpl_token_tokens!0 10)) 3) (= (sat (select G_tpl_token_tokens!0 10) 0) 82) (= (sat (select G_tpl_token_tokens!0 10) 1) 65) (= (sat (select G_tpl_token_tokens!0 10) 2) 84))) (and (= (slen (select G_tpl_token_tokens!0 11)) 4) (= (sat (select G_tpl_token_tokens!0 11) 0) 85) (= (sat (select G_tpl_token_tokens!0 11) 1) 78) (= (sat (select G_tpl_token_tokens!0 11) 2) 73) (= (sat (select G_tpl_token_tokens!0 11) 3) 84))) (and (= (slen (select G_tpl_token_tokens!0 43)) 1) (= (sat (select G_tpl_token_tokens!0 43) 0) 43))) (and (= (slen (select G_tpl_token_tokens!0 45)) 1) (= (sat (select G_tpl_token_tokens!0 45) 0) 45))) (and (= (slen (select G_tpl_token_tokens!0 42)) 1) (= (sat (select G_tpl_token_tokens!0 42) 0) 42))) (and (= (slen (select G_tpl_token_tokens!0 47)) 1) (= (sat (select G_tpl_token_tokens!0 47) 0) 47))) (and (= (slen (select G_tpl_token_tokens!0 37)) 1) (= (sat (select G_tpl_token_tokens!0 37) 0) 37))) (and (= (slen (select G_tpl_token_tokens!0 38)) 1) (= (sat (select G_tpl_token_tokens!0 38) 0) 38))) (and (= (slen (select G_tpl_token_tokens!0 124)) 1) (= (sat (select G_tpl_token_tokens!0 124) 0) 124))) (and (= (slen (select G_tpl_token_tokens!0 94)) 1) (= (sat (select G_tpl_token_tokens!0 94) 0) 94))) (and (= (slen (select G_tpl_token_tokens!0 60)) 1) (= (sat (select G_tpl_token_tokens!0 60) 0) 60))) (and (= (slen (select G_tpl_token_tokens!0 62)) 1) (= (sat (select G_tpl_token_tokens!0 62) 0) 62))) (and (= (slen (select G_tpl_token_tokens!0 61)) 1) (= (sat (select G_tpl_token_tokens!0 61) 0) 61))) (and (= (slen (select G_tpl_token_tokens!0 33)) 1) (= (sat (select G_tpl_token_tokens!0 33) 0) 33))) (and (= (slen (select G_tpl_token_tokens!0 40)) 1) (= (sat (select G_tpl_token_tokens!0 40) 0) 40))) (and (= (slen (select G_tpl_token_tokens!0 91)) 1) (= (sat (select G_tpl_token_tokens!0 91) 0) 91))) (and (= (slen (select G_tpl_token_tokens!0 123)) 1) (= (sat (select G_tpl_token_tokens!0 123) 0) 123))) (and (= (slen (select G_tpl_token_tokens!0 44)) 1) (= (sat (select G_tpl_token_tokens!0 44) 0) 44))) (and (= (slen (select G_tpl_token_tokens!0 46)) 1) (= (sat (select G_tpl_token_tokens!0 46) 0) 46))) (and (= (slen (select G_tpl_token_tokens!0 41)) 1) (= (sat (select G_tpl_token_tokens!0 41) 0) 41))) (and (= (slen (select G_tpl_token_tokens!0 93)) 1) (= (sat (select G_tpl_token_tokens!0 93) 0) 93))) (and (= (slen (select G_tpl_token_tokens!0 125)) 1) (= (sat (select G_tpl_token_tokens!0 125) 0) 125))) (and (= (slen (select G_tpl_token_tokens!0 59)) 1) (= (sat (select G_tpl_token_tokens!0 59) 0) 59))) (and (= (slen (select G_tpl_token_tokens!0 58)) 1) (= (sat (select G_tpl_token_tokens!0 58) 0) 58))) (and (= (slen (select G_tpl_token_tokens!0 63)) 1) (= (sat (select G_tpl_token_tokens!0 63) 0) 63))) (and (= (slen (select G_tpl_token_tokens!0 126)) 1) (= (sat (select G_tpl_token_tokens!0 126) 0) 126))) (and (= (slen (select G_tpl_token_tokens!0 64)) 1) (= (sat (select G_tpl_token_tokens!0 64) 0) 64))) (and (= (slen (select G_tpl_token_tokens!0 36)) 1) (= (sat (select G_tpl_token_tokens!0 36) 0) 36))) (and (= (slen (select G_tpl_token_tokens!0 129)) 2) (= (sat (select G_tpl_token_tokens!0 129) 0) 60) (= (sat (select G_tpl_token_tokens!0 129) 1) 60))) (and (= (slen (select G_tpl_token_tokens!0 130)) 2) (= (sat (select G_tpl_token_tokens!0 130) 0) 62) (= (sat (select G_tpl_token_tokens!0 130) 1) 62))) (and (= (slen (select G_tpl_token_tokens!0 131)) 2) (= (sat (select G_tpl_token_tokens!0 131) 0) 38) (= (sat (select G_tpl_token_tokens!0 131) 1) 94))) (and (= (slen (select G_tpl_token_tokens!0 132)) 2) (= (sat (select G_tpl_token_tokens!0 132) 0) 43) (= (sat (select G_tpl_token_tokens!0 132) 1) 61))) (and (= (slen (select G_tpl_token_tokens!0 133)) 2) (= (sat (select G_tpl_token_tokens!0 133) 0) 45) (= (sat (select G_tpl_token_tokens!0 133) 1) 61))) (and (= (slen (select G_tpl_token_tokens!0 134)) 2) (= (sat (select G_tpl_token_tokens!0 134) 0) 42) (= (sat (select G_tpl_token_tokens!0 134) 1) 61))) (and (= (slen (select G_tpl_token_tokens!0 135)) 2) (= (sat (select G_tpl_token_tokens!0 135) 0) 47) (= (sat (select G_tpl_token_tokens!0 135) 1) 61))) (and (= (slen (select G_tpl_token_tokens!0 136)) 2) (= (sat (select G_tpl_token_tokens!0 136) 0) 37) (= (sat (select G_tpl_token_tokens!0 136) 1) 61))) (and (= (slen (select G_tpl_token_tokens!0 137)) 2) (= (sat (select G_tpl_token_tokens!0 137) 0) 38) (= (sat (select G_tpl_token_tokens!0 137) 1) 61))) (and (= (slen (select G_tpl_token_tokens!0 138)) 2) (= (sat (select G_tpl_token_tokens!0 138) 0) 124) (= (sat (select G_tpl_token_tokens!0 138) 1) 61))) (and (= (slen (select G_tpl_token_tokens!0 139)) 2) (= (sat (select G_tpl_token_tokens!0 139) 0) 94) (= (sat (select G_tpl_token_tokens!0 139) 1) 61))) (and (= (slen (select G_tpl_token_tokens!0 140)) 3) (= (sat (select G_tpl_token_tokens!0 140) 0) 60) (= (sat (select G_tpl_token_tokens!0 140) 1) 60) (= (sat (select G_tpl_token_tokens!0 140) 2) 61))) (and (= (slen (select G_tpl_token_tokens!0 141)) 3) (= (sat (select G_tpl_token_tokens!0 141) 0) 62) (= (sat (select G_tpl_token_tokens!0 141) 1) 62) (= (sat (select G_tpl_token_tokens!0 141) 2) 61))) (and (= (slen (select G_tpl_token_tokens!0 142)) 3) (= (sat (select G_tpl_token_tokens!0 142) 0) 38) (= (sat (select G_tpl_token_tokens!0 142) 1) 94) (= (sat (select G_tpl_token_tokens!0 142) 2) 61))) (and (= (slen (select G_tpl_token_tokens!0 143)) 2) (= (sat (select G_tpl_token_tokens!0 143) 0) 38) (= (sat (select G_tpl_token_tokens!0 143) 1) 38))) (and (= (slen (select G_tpl_token_tokens!0 144)) 2) (= (sat (select G_tpl_token_tokens!0 144) 0) 124) (= (sat (select G_tpl_token_tokens!0 144) 1) 124))) (and (= (slen (select G_tpl_token_tokens!0 145)) 2) (= (sat (select G_tpl_token_tokens!0 145) 0) 60) (= (sat (select G_tpl_token_tokens!0 145) 1) 45))) (and (= (slen (select G_tpl_token_tokens!0 146)) 2) (= (sat (select G_tpl_token_tokens!0 146) 0) 43) (= (sat (select G_tpl_token_tokens!0 146) 1) 43))) (and (= (slen (select G_tpl_token_tokens!0 147)) 2) (= (sat (select G_tpl_token_tokens!0 147) 0) 45) (= (sat (select G_tpl_token_tokens!0 147) 1) 45))) (and (= (slen (select G_tpl_token_tokens!0 148)) 2) (= (sat (select G_tpl_token_tokens!0 148) 0) 61) (= (sat (select G_tpl_token_tokens!0 148) 1) 61))) (and (= (slen (select G_tpl_token_tokens!0 149)) 2) (= (sat (select G_tpl_token_tokens!0 149) 0) 33) (= (sat (select G_tpl_token_tokens!0 149) 1) 61))) (and (= (slen (select G_tpl_token_tokens!0 150)) 2) (= (sat (select G_tpl_token_tokens!0 150) 0) 60) (= (sat (select G_tpl_token_tokens!0 150) 1) 61))) (and (= (slen (select G_tpl_token_tokens!0 151)) 2) (= (sat (select G_tpl_token_tokens!0 151) 0) 62) (= (sat (select G_tpl_token_tokens!0 151) 1) 61))) (and (= (slen (select G_tpl_token_tokens!0 152)) 2) (= (sat (select G_tpl_token_tokens!0 152) 0) 58) (= (sat (select G_tpl_token_tokens!0 152) 1) 61))) (and (= (slen (select G_tpl_token_tokens!0 153)) 3) (= (sat (select G_tpl_token_tokens!0 153) 0) 46) (= (sat (select G_tpl_token_tokens!0 153) 1) 46) (= (sat (select G_tpl_token_tokens!0 153) 2) 46))) (and (= (slen (select G_tpl_token_tokens!0 154)) 2) (= (sat (select G_tpl_token_tokens!0 154) 0) 61) (= (sat (select G_tpl_token_tokens!0 154) 1) 62))) (and (= (slen (select G_tpl_token_tokens!0 155)) 2) (= (sat (select G_tpl_token_tokens!0 155) 0) 45) (= (sat (select G_tpl_token_tokens!0 155) 1) 62))) (and (= (slen (select G_tpl_token_tokens!0 156)) 2) (= (sat (select G_tpl_token_tokens!0 156) 0) 60) (= (sat (select G_tpl_token_tokens!0 156) 1) 62))) (and (= (slen (select G_tpl_token_tokens!0 157)) 2) (= (sat (select G_tpl_token_tokens!0 157) 0) 42) (= (sat (select G_tpl_token_tokens!0 157) 1) 42))) (= (slen (select G_tpl_token_tokens!0 3)) 0)) (= (slen (select G_tpl_token_tokens!0 12)) 0)) (= (slen (select G_tpl_token_tokens!0 13)) 0)) (= (slen (select G_tpl_token_tokens!0 14)) 0)) (= (slen (select G_tpl_token_tokens!0 15)) 0)) (= (slen (select G_tpl_token_tokens!0 16)) 0)) (= (slen (select G_tpl_token_tokens!0 17)) 0)) (= (slen (select G_tpl_token_tokens!0 18)) 0)) (= (slen (select G_tpl_token_tokens!0 19)) 0)) (= (slen (select G_tpl_token_tokens!0 20)) 0)) (= (slen (select G_tpl_token_tokens!0 21)) 0)) (= (slen (select G_tpl_token_tokens!0 22)) 0)) (= (slen (select G_tpl_token_tokens!0 23)) 0)) (= (slen (select G_tpl_token_tokens!0 24)) 0)) (= (slen (select G_tpl_token_tokens!0 25)) 0)) (= (slen (select G_tpl_token_tokens!0 26)) 0)) (= (slen (select G_tpl_token_tokens!0 27)) 0)) (= (slen (select G_tpl_token_tokens!0 28)) 0)) (= (slen (select G_tpl_token_tokens!0 29)) 0)) (= (slen (select G_tpl_token_tokens!0 30)) 0)) (= (slen (select G_tpl_token_tokens!0 31)) 0)) (= (slen (select G_tpl_token_tokens!0 32)) 0)) (= (slen (select G_tpl_token_tokens!0 34)) 0)) (= (slen (select G_tpl_token_tokens!0 35)) 0)) (= (slen (select G_tpl_token_tokens!0 39)) 0)) (= (slen (select G_tpl_token_tokens!0 48)) 0)) (= (slen (select G_tpl_token_tokens!0 49)) 0)) (= (slen (select G_tpl_token_tokens!0 50)) 0)) (= (slen (select G_tpl_token_tokens!0 51)) 0)) (= (slen (select G_tpl_token_tokens!0 52)) 0)) (= (slen (select G_tpl_token_tokens!0 53)) 0)) (= (slen (select G_tpl_token_tokens!0 54)) 0)) (= (slen (select G_tpl_token_tokens!0 55)) 0)) (= (slen (select G_tpl_token_tokens!0 56)) 0)) (= (slen (select G_tpl_token_tokens!0 57)) 0)) (= (slen (select G_tpl_token_tokens!0 65)) 0)) (= (slen (select G_tpl_token_tokens!0 66)) 0)) (= (slen (select G_tpl_token_tokens!0 67)) 0)) (= (slen (select G_tpl_token_tokens!0 68)) 0)) (= (slen (select G_tpl_token_tokens!0 69)) 0)) (= (slen (select G_tpl_token_tokens!0 70)) 0)) (= (slen (select G_tpl_token_tokens!0 71)) 0)) (= (slen (select G_tpl_token_tokens!0 72)) 0)) (= (slen (select G_tpl_token_tokens!0 73)) 0)) (= (slen (select G_tpl_token_tokens!0 74)) 0)) (= (slen (select G_tpl_token_tokens!0 75)) 0)) (= (slen (select G_tpl_token_tokens!0 76)) 0)) (= (slen (select G_tpl_token_tokens!0 77)) 0)) (= (slen (select G_tpl_token_tokens!0 78)) 0)) (= (slen (select G_tpl_token_tokens!0 79)) 0)) (= (slen (select G_tpl_token_tokens!0 80)) 0)) (= (slen (select G_tpl_token_tokens!0 81)) 0)) (= (slen (select G_tpl_token_tokens!0 82)) 0)) (= (slen (select G_tpl_token_tokens!0 83)) 0)) (= (slen (select G_tpl_token_tokens!0 84)) 0)) (= (slen (select G_tpl_token_tokens!0 85)) 0)) (= (slen (select G_tpl_token_tokens!0 86)) 0)) (= (slen (select G_tpl_token_tokens!0 87)) 0)) (= (slen (select G_tpl_token_tokens!0 88)) 0)) (= (slen (select G_tpl_token_tokens!0 89)) 0)) (= (slen (select G_tpl_token_tokens!0 90)) 0)) (= (slen (select G_tpl_token_tokens!0 92)) 0)) (= (slen (select G_tpl_token_tokens!0 95)) 0)) (= (slen (select G_tpl_token_tokens!0 96)) 0)) (= (slen (select G_tpl_token_tokens!0 97)) 0)) (= (slen (select G_tpl_token_tokens!0 98)) 0)) (= (slen (select G_tpl_token_tokens!0 99)) 0)) (= (slen (select G_tpl_token_tokens!0 100)) 0)) (= (slen (select G_tpl_token_tokens!0 101)) 0)) (= (slen (select G_tpl_token_tokens!0 102)) 0)) (= (slen (select G_tpl_token_tokens!0 103)) 0)) (= (slen (select G_tpl_token_tokens!0 104)) 0)) (= (slen (select G_tpl_token_tokens!0 105)) 0)) (= (slen (select G_tpl_token_tokens!0 106)) 0)) (= (slen (select G_tpl_token_tokens!0 107)) 0)) (= (slen (select G_tpl_token_tokens!0 108)) 0)) (= (slen (select G_tpl_token_tokens!0 109)) 0)) (= (slen (select G_tpl_token_tokens!0 110)) 0)) (= (slen (select G_tpl_token_tokens!0 111)) 0)) (= (slen (select G_tpl_token_tokens!0 112)) 0)) (= (slen (select G_tpl_token_tokens!0 113)) 0)) (= (slen (select G_tpl_token_tokens!0 114)) 0)) (= (slen (select G_tpl_token_tokens!0 115)) 0)) (= (slen (select G_tpl_token_tokens!0 116)) 0)) (= (slen (select G_tpl_token_tokens!0 117)) 0)) (= (slen (select G_tpl_token_tokens!0 118)) 0)) (= (slen (select G_tpl_token_tokens!0 119)) 0)) (= (slen (select G_tpl_token_tokens!0 120)) 0)) (= (slen (select G_tpl_token_tokens!0 121)) 0)) (= (slen (select G_tpl_token_tokens!0 122)) 0)) (= (slen (select G_tpl_token_tokens!0 127)) 0)) (= (slen (select G_tpl_token_tokens!0 128)) 0))) ; ginv table_tokens
(declare-const p_tok!3 Int)
(assert (and (<= 0 p_tok!3) (<= p_tok!3 18446744073709551615)))
(assert (and (<= 0 p_tok!3) (<= p_tok!3 18446744073709551615)))
(declare-const t5!4 Bool)
(assert (= t5!4 (> p_tok!3 32)))
(declare-const e_0_2!5 Bool)
(assert (= e_0_2!5 (not t5!4)))
(assert (=> t5!4 (and (<= 0 p_tok!3) (<= p_tok!3 18446744073709551615))))
(declare-const t13!6 Bool)
(assert (= t13!6 (<= p_tok!3 158)))
(declare-const e_3_1!7 Bool)
(assert (= e_3_1!7 (and t5!4 t13!6)))
(declare-const e_3_2!8 Bool)
(assert (= e_3_2!8 (and t5!4 (not t13!6))))
(declare-const pc_b2!9 Bool)
(assert (= pc_b2!9 (or e_0_2!5 e_3_2!8)))
(assert (=> pc_b2!9 (and (<= (- 9223372036854775808) 0) (<= 0 9223372036854775807))))
(assert (=> e_3_1!7 (and (<= 0 p_tok!3) (<= p_tok!3 18446744073709551615))))
(assert (not (=> e_3_1!7 (and (<= 0 p_tok!3) (< p_tok!3 158)))))
(check-sat)
(get-model)
