package tpl

import "testing"

// Witness of the C27 finding fixed by "fix: tpl.Relocate passes errors without a position through":
// NewEx on a grammar without a document rule must return an error, not panic.
func TestGovcWitnessRelocateNoPanic(t *testing.T) {
	for _, src := range []string{"", "// only a comment\n", "x = \"@@\""} {
		func() {
			defer func() {
				if e := recover(); e != nil {
					t.Errorf("tpl.NewEx(%q) panicked: %v", src, e)
				}
			}()
			if _, err := NewEx(src, "g.tpl", 3, 5); err == nil {
				t.Errorf("tpl.NewEx(%q): expected an error", src)
			}
		}()
	}
}
