package tpl_test

import (
	"testing"

	"github.com/goplus/xgo/tpl"
)

// Witness of the known finding recorded for C29 (obligation hasConflictMatchToken/post:c29.literal-conflict):
// a keyword literal listed BEFORE an alternative that starts with its bare token is not seen as a FIRST-set
// conflict (hasConflictMatchToken skips token.Token entries), so the choice commits to the keyword alternative
// after its first token and never tries the later one: `"if" "(" | IDENT "x"` rejects `if x` although its second
// alternative matches it (README: "matches any one of the rules"; with the alternatives swapped the conflict is
// reported and `if x` is accepted).
func TestGovcWitnessKeywordBeforeItsToken(t *testing.T) {
	cl, err := tpl.New("doc = \"if\" \"(\" | IDENT \"x\"\n")
	if err != nil {
		t.Fatal(err)
	}
	if _, err := cl.ParseExpr("if x", nil); err != nil {
		t.Errorf("`if x` is matched by the second alternative IDENT \"x\", but the choice fails: %v", err)
	}
}
