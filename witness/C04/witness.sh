#!/bin/bash
# Witness for the C04 known finding on the real toolchain: a range expression with a negative step enumerates
# different sequences as a for-in statement (lowered by cl.toForStmt to `i < end; i += step`) and in a
# comprehension (run-time IntRange iterator). exit 1 = the two contexts disagree (defect reproduced), 0 = agree.
set -u
export GOFLAGS=-mod=mod GOPROXY=off GOSUMDB=off GOTOOLCHAIN=local
T=$(mktemp -d "${TMPDIR:-/var/tmp}/govc-c04.XXXXXX")
trap 'rm -rf "$T"' EXIT
(cd /repo && go build -o "$T/xgo" ./cmd/xgo) || { echo "cannot build xgo"; exit 2; }
mkdir -p "$T/m" && cd "$T/m"
cat > go.mod <<M
module example.com/m

go 1.21

require github.com/goplus/xgo v0.0.0
require github.com/qiniu/x v1.15.0

replace github.com/goplus/xgo => /repo
M
cp /repo/go.sum .
cat > main.xgo <<'P'
var a []int
for i <- 10:0:-2 {
	a = append(a, i)
}
b := [i for i <- 10:0:-2]
println a
println b
var c []int
for i <- 0:10:3 {
	c = append(c, i)
}
d := [i for i <- 0:10:3]
println c
println d
P
out=$(XGOROOT=/repo "$T/xgo" run . 2>&1)
echo "$out"
l1=$(echo "$out" | sed -n 1p); l2=$(echo "$out" | sed -n 2p); l3=$(echo "$out" | sed -n 3p); l4=$(echo "$out" | sed -n 4p)
[ "$l3" = "$l4" ] || { echo "positive step disagrees too"; exit 1; }
if [ "$l1" != "$l2" ]; then echo "DEFECT: 10:0:-2 gives $l1 as a statement and $l2 in a comprehension"; exit 1; fi
exit 0
