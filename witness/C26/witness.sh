#!/bin/bash
# Witness for C26 on the real toolchain: builds the repo's xgo, then
#  (1) kills `xgo fmt` exactly at its rename(2) call (strace fault injection) and looks at the file's path,
#  (2) runs `xgo fmt` to completion and compares permission bits.
# exit 0 = property held in both experiments, exit 1 = a defect reproduced. Scratch space is removed on exit.
set -u
export GOFLAGS=-mod=mod GOPROXY=off GOSUMDB=off GOTOOLCHAIN=local
T=$(mktemp -d "${TMPDIR:-/var/tmp}/govc-c26.XXXXXX")
trap 'rm -rf "$T"' EXIT
(cd /repo && go build -o "$T/xgo" ./cmd/xgo) || { echo "cannot build xgo"; exit 2; }
mkdir -p "$T/m" && cd "$T/m"
printf 'module example.com/m\n\ngo 1.21\n' > go.mod
bad=0
printf 'x := 1\nprintln   x\n' > a.xgo; chmod 0754 a.xgo
orig=$(cat a.xgo)
XGOROOT=/repo strace -f -o "$T/trace" -e trace=rename,renameat,renameat2,unlink,unlinkat -e inject=rename,renameat,renameat2:signal=KILL "$T/xgo" fmt a.xgo >/dev/null 2>&1
if [ ! -e a.xgo ]; then
  echo "DEFECT(crash): killed at rename -> a.xgo does not exist any more (only $(ls | tr '\n' ' '))"; bad=1
elif [ "$(cat a.xgo)" != "$orig" ] && ! grep -q 'println x' a.xgo; then
  echo "DEFECT(crash): a.xgo holds neither the original nor the formatted content"; bad=1
else
  echo "crash at rename: a.xgo still holds a complete version"
fi
rm -f a.xgo a.xgo[0-9]*
printf 'x := 1\nprintln   x\n' > b.xgo; chmod 0754 b.xgo
XGOROOT=/repo "$T/xgo" fmt b.xgo >/dev/null 2>&1
m=$(stat -c %a b.xgo 2>/dev/null)
if [ "$m" != "754" ]; then echo "DEFECT(mode): mode of b.xgo after xgo fmt is $m, was 754"; bad=1; else echo "mode preserved (754)"; fi
exit $bad
