package parser_test

import (
	"testing"

	"github.com/goplus/xgo/ast"
	"github.com/goplus/xgo/parser"
	"github.com/goplus/xgo/token"
)

// Witness for C18 (a): ast.Walk/Inspect must not panic on any node kind the parser produces.
func TestGovcWitnessWalkMatrixLit(t *testing.T) {
	defer func() {
		if r := recover(); r != nil {
			t.Fatalf("ast.Inspect panicked: %v", r)
		}
	}()
	f, err := parser.ParseFile(token.NewFileSet(), "a.xgo", "echo [1, 2; 3, 4]\necho [1, [2, 3]...; 4, 5, 6]\n", 0)
	if err != nil {
		t.Fatal(err)
	}
	n := 0
	ast.Inspect(f, func(nd ast.Node) bool {
		if _, ok := nd.(*ast.BasicLit); ok {
			n++
		}
		return true
	})
	if n != 10 {
		t.Fatalf("visited %d literals, want 10", n)
	}
}

// Witness for C18 (b): siblings are visited in source order — in a for-phrase `for x <- xs if cond`, the range
// operand xs precedes the filter in the source.
func TestGovcWitnessWalkForPhraseOrder(t *testing.T) {
	f, err := parser.ParseFile(token.NewFileSet(), "a.xgo", "y := [x for x <- xs if x > limit]\n", 0)
	if err != nil {
		t.Fatal(err)
	}
	var last token.Pos
	ast.Inspect(f, func(nd ast.Node) bool {
		if id, ok := nd.(*ast.Ident); ok {
			if id.Pos() < last {
				t.Fatalf("identifier %s at %d visited after position %d: siblings out of source order", id.Name, id.Pos(), last)
			}
			last = id.Pos()
		}
		return true
	})
}
