package parser

import (
	"testing"

	"github.com/goplus/xgo/ast"
	"github.com/goplus/xgo/token"
)

// Witness of the C05 finding fixed by "fix: parser: split the source text of raw string literals":
// a raw string literal with a carriage return before an interpolated expression is a valid literal (carriage
// returns are not part of a raw string's value); its ${...} part must be parsed from the text between the braces.
func TestGovcWitnessRawStringCR(t *testing.T) {
	for _, src := range []string{"y := 1\nx := `a\r\n${y}`\n", "y := 1\nx := `\r\r\r${y}z`\n"} {
		fset := token.NewFileSet()
		f, err := ParseFile(fset, "a.xgo", src, 0)
		if err != nil {
			t.Fatalf("%q: %v", src, err)
		}
		found := false
		ast.Inspect(f, func(n ast.Node) bool {
			if bl, ok := n.(*ast.BasicLit); ok && bl.Extra != nil {
				for _, p := range bl.Extra.Parts {
					if id, ok := p.(*ast.Ident); ok && id.Name == "y" && src[fset.Position(id.Pos()).Offset] == 'y' {
						found = true
					}
				}
			}
			return true
		})
		if !found {
			t.Fatalf("%q: the interpolated expression y was not parsed from its source position", src)
		}
	}
}
