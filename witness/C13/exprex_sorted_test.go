package parser

import (
	"sort"
	"testing"

	"github.com/goplus/xgo/token"
)

// Witness of the defect found by the obligation ParseExprEx$1/post:errors-sorted (C13): ParseExprEx, documented to
// return its errors "sorted by source position", returned p.errors as recorded. A lambda's parameter list is checked
// after its body has been parsed, so `1 => x +\n)` reported the line-2 error before the line-1 error.
func TestGovcWitnessExprExErrorsSorted(t *testing.T) {
	for _, src := range []string{"1 => x +\n)", "(a, 1) => x +\n''", "1 => +\n."} {
		fset := token.NewFileSet()
		f := fset.AddFile("a.xgo", -1, len(src))
		_, errs := ParseExprEx(f, []byte(src), 0, 0)
		if !sort.IsSorted(errs) {
			t.Errorf("ParseExprEx(%q): errors not sorted by position: %v", src, errs)
		}
	}
}
