package parser

import (
	"testing"

	"github.com/goplus/xgo/token"
)

// Witness of a fourth panic escaping ParseFile (C13), reported by the sub-agent that seeded C13-agent4 while fuzzing
// the unchanged tree: parseArrayTypeOrSliceLit called log.Panicln("TODO: expect slice index") for `x[` followed by
// `]` in a position where neither a type nor an index is present.
func TestGovcWitnessSliceIndexTodo(t *testing.T) {
	for _, src := range []string{"y := { \n var [ echo 1.5 [ ] "} {
		func() {
			defer func() {
				if e := recover(); e != nil {
					t.Errorf("ParseFile(%q) panics: %v", src, e)
				}
			}()
			fset := token.NewFileSet()
			if _, err := ParseFile(fset, "a.xgo", src, 0); err == nil {
				t.Errorf("ParseFile(%q): no error reported", src)
			}
		}()
	}
}
