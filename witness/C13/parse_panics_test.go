package parser

import (
	"testing"

	"github.com/goplus/xgo/token"
)

// Witnesses of three defects of C13 above the token layer (ParseFile let a panic escape):
//   - `x := {1, 2 for i <- a}`: log.Panicln("TODO: invalid comprehension: too may elements.") in
//     parseElementListOrComprehension (found by the obligation panic:call of noreturn log.Panicln);
//   - `for a, b, c <- x {}`: log.Panicln("TODO: parseForPhraseStmt - too many variables ...") in
//     parseForPhraseStmtPart (found by the same kind of obligation);
//   - `go ()`, `defer ()`, `go (a, b)`: parseLambdaExpr reports "tuple is not supported" but the internal *tupleExpr
//     (whose embedded ast.Expr is nil) escaped through parseRHSOrType, and parseCallExpr called End() on it: nil
//     pointer dereference (reported by a sub-agent while fuzzing; not reachable by an obligation).
func TestGovcWitnessParsePanics(t *testing.T) {
	for _, src := range []string{
		"x := {1, 2 for i <- a}\n",
		"for a, b, c <- x {\n}\n",
		"for a, b, c in x {\n}\n",
		"go ()\n", "defer ()\n", "go (a, b)\n",
		"package p; go ( ) import if x p x < ",
		"package p; func f() { x { break if * for <> for ",
	} {
		func() {
			defer func() {
				if e := recover(); e != nil {
					t.Errorf("ParseFile(%q) panics: %v", src, e)
				}
			}()
			fset := token.NewFileSet()
			if _, err := ParseFile(fset, "a.xgo", src, 0); err == nil {
				t.Errorf("ParseFile(%q): no error reported", src)
			}
		}()
	}
}
