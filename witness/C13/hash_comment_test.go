package parser

import (
	"testing"

	"github.com/goplus/xgo/token"
)

// Witness of the defect found by the obligation (*parser).consumeComment/bounds:p.lit[1] (C13): a '#' comment of
// length 1 (a lone "#" at the end of the source) made consumeComment index p.lit[1]; ParseFile panicked with an
// index-out-of-range error that its deferred recover re-raises (it is not a bailout).
func TestGovcWitnessHashCommentAtEOF(t *testing.T) {
	for _, src := range []string{"#", "package main\n#", "x := 1 #"} {
		func() {
			defer func() {
				if e := recover(); e != nil {
					t.Errorf("ParseFile(%q) panics: %v", src, e)
				}
			}()
			fset := token.NewFileSet()
			ParseFile(fset, "a.xgo", src, ParseComments)
		}()
	}
}
