package tpl_test

import (
	"testing"

	"github.com/goplus/xgo/tpl"
)

// Witness for C28 finding (a): a repetition whose element matches without consuming input.
// Before the fix this never returned (the go test -timeout fires); after the fix it must terminate.
func TestGovcWitnessRepeatEmpty(t *testing.T) {
	for _, g := range []string{`x = *""`, `x = +""`, `x = *(?"a")`} {
		cl, err := tpl.New(g)
		if err != nil {
			t.Logf("grammar %q rejected at compile time: %v", g, err)
			continue
		}
		_, err = cl.ParseExpr("a b", nil)
		t.Logf("grammar %q: ParseExpr returned (err=%v)", g, err)
	}
}
