package tpl_test

import (
	"testing"

	"github.com/goplus/xgo/tpl"
)

// Witness for C28 finding (b): a left-recursive rule is accepted by the grammar compiler and matching it
// recurses without consuming input until the stack overflows (fatal error, the test binary dies).
func TestGovcWitnessLeftRecursion(t *testing.T) {
	cl, err := tpl.New(`x = x "a"`)
	if err != nil {
		t.Logf("rejected at compile time: %v", err)
		return
	}
	_, err = cl.ParseExpr("a a", nil)
	t.Logf("ParseExpr returned (err=%v)", err)
}
