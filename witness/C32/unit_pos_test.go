package scanner

import (
	"testing"

	"github.com/goplus/xgo/tpl/token"
)

// Witness of the C32 finding fixed by "fix: tpl/scanner reports the UNIT token ... at the wrong position":
// the unit of a number with unit ends where the number literal ends; white space after it must not move it.
func TestGovcWitnessUnitPos(t *testing.T) {
	const src = "1mm  + 2"
	fset := token.NewFileSet()
	f := fset.AddFile("a.tpl", -1, len(src))
	var s Scanner
	s.Init(f, []byte(src), nil, 0)
	for {
		tok := s.Scan()
		if tok.Tok == token.EOF {
			break
		}
		if tok.Tok == token.UNIT {
			off := f.Offset(tok.Pos)
			if off != 1 || src[off:off+len(tok.Lit)] != tok.Lit {
				t.Fatalf("UNIT %q reported at offset %d (source text there: %q), want offset 1", tok.Lit, off, src[off:off+len(tok.Lit)])
			}
			return
		}
	}
	t.Fatal("no UNIT token")
}
