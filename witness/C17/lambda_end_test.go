package parser

import (
	"testing"

	"github.com/goplus/xgo/ast"
	"github.com/goplus/xgo/token"
)

// Witness of the C17 finding fixed by "fix: parser: LambdaExpr.Last is the end of the right-hand side":
// the span of a lambda expression ends just after its last token, not at the next token of the enclosing
// expression (white space or comments before that token are not part of the lambda).
func TestGovcWitnessLambdaEnd(t *testing.T) {
	cases := []struct{ src, want string }{
		{"foo(x => x*2 )\n", "x => x*2"},
		{"foo(x => x*2 /* c */ , 1)\n", "x => x*2"},
		{"foo((x, y) => (x, y)  )\n", "(x, y) => (x, y)"},
	}
	for _, c := range cases {
		fset := token.NewFileSet()
		f, err := ParseFile(fset, "a.xgo", c.src, 0)
		if err != nil {
			t.Fatalf("%q: %v", c.src, err)
		}
		found := false
		ast.Inspect(f, func(n ast.Node) bool {
			if l, ok := n.(*ast.LambdaExpr); ok {
				found = true
				got := c.src[fset.Position(l.Pos()).Offset:fset.Position(l.End()).Offset]
				if got != c.want {
					t.Errorf("%q: lambda span %q, want %q", c.src, got, c.want)
				}
			}
			return true
		})
		if !found {
			t.Errorf("%q: no LambdaExpr", c.src)
		}
	}
}
