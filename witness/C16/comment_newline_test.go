package scanner

import (
	"fmt"
	goscanner "go/scanner"
	gotoken "go/token"
	"testing"

	"github.com/goplus/xgo/token"
)

// Witness of the recorded C16 finding: after a token that needs a semicolon, a /*...*/ comment containing a
// newline makes both scanners insert a ";" — the XGo scanner (forked before go/scanner got nlPos) reports it
// BEFORE the comment, at the comment's start; go/scanner (go1.21+) reports it AFTER the comment token, at the
// position of the first newline inside the comment. Same lexemes, different token sequence and offsets.
func TestGovcWitnessCommentNewlineSemicolon(t *testing.T) {
	const src = "x /* a\n b */ y\n"
	var got, want []string
	{
		fset := token.NewFileSet()
		f := fset.AddFile("a.go", -1, len(src))
		var s Scanner
		s.Init(f, []byte(src), nil, ScanComments)
		for {
			pos, tok, lit := s.Scan()
			if tok == token.EOF {
				break
			}
			got = append(got, fmt.Sprintf("%d:%s:%q", f.Offset(pos), tok, lit))
		}
	}
	{
		fset := gotoken.NewFileSet()
		f := fset.AddFile("a.go", -1, len(src))
		var s goscanner.Scanner
		s.Init(f, []byte(src), nil, goscanner.ScanComments)
		for {
			pos, tok, lit := s.Scan()
			if tok == gotoken.EOF {
				break
			}
			want = append(want, fmt.Sprintf("%d:%s:%q", f.Offset(pos), tok, lit))
		}
	}
	if fmt.Sprint(got) != fmt.Sprint(want) {
		t.Fatalf("token sequences differ:\n xgo scanner: %v\n go/scanner:  %v", got, want)
	}
}
