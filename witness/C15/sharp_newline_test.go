package scanner_test

import (
	"testing"

	"github.com/goplus/xgo/scanner"
	"github.com/goplus/xgo/token"
)

// Witness for C15/C32: a '#' line comment must end at the newline. The scanner consumed the byte after '#'
// unconditionally, so an empty "#" comment swallowed the following line, and "#*" opened a block comment.
func TestGovcWitnessSharpComment(t *testing.T) {
	for _, c := range []struct{ src, want string }{{"a\n#\nb\n", "#"}, {"a\n#*x\nb\n", "#*x"}} {
		fset := token.NewFileSet()
		f := fset.AddFile("a.xgo", -1, len(c.src))
		var s scanner.Scanner
		s.Init(f, []byte(c.src), nil, scanner.ScanComments)
		for {
			_, tok, lit := s.Scan()
			if tok == token.EOF {
				break
			}
			if tok == token.COMMENT && lit != c.want {
				t.Fatalf("source %q: comment literal %q, want %q", c.src, lit, c.want)
			}
		}
	}
}
