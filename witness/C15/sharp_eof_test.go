package scanner_test

import (
	"testing"

	"github.com/goplus/xgo/scanner"
	"github.com/goplus/xgo/token"
)

// Witness for C15: a '#' comment consisting of the single byte '#' at the very end of the input.
// scanComment evaluated lit[1] on the one-byte literal: index out of range escaping Scan.
func TestGovcWitnessSharpAtEOF(t *testing.T) {
	for _, src := range []string{"x\n#", "#"} {
		func() {
			defer func() {
				if r := recover(); r != nil {
					t.Fatalf("scanning %q panicked: %v", src, r)
				}
			}()
			fset := token.NewFileSet()
			f := fset.AddFile("a.xgo", -1, len(src))
			var s scanner.Scanner
			s.Init(f, []byte(src), nil, scanner.ScanComments)
			for i := 0; i < 10; i++ {
				if _, tok, _ := s.Scan(); tok == token.EOF {
					return
				}
			}
			t.Fatalf("scanning %q: no EOF after 10 tokens", src)
		}()
	}
}
