package scanner_test

import (
	"testing"

	"github.com/goplus/xgo/scanner"
	"github.com/goplus/xgo/token"
)

// Witness for C15: the UNIT token of a number with unit ("1mm") must be reported at the offset of its text,
// also when white space follows it.
func TestGovcWitnessUnitPos(t *testing.T) {
	src := "1mm  + 2"
	fset := token.NewFileSet()
	f := fset.AddFile("a.xgo", -1, len(src))
	var s scanner.Scanner
	s.Init(f, []byte(src), nil, 0)
	for {
		pos, tok, lit := s.Scan()
		if tok == token.EOF {
			break
		}
		if tok == token.UNIT {
			off := f.Offset(pos)
			if got := src[off : off+len(lit)]; got != lit {
				t.Fatalf("UNIT %q reported at offset %d where the source has %q", lit, off, got)
			}
		}
	}
}
