package togo

import (
	"bytes"
	"go/ast"
	"go/format"
	"go/parser"
	"go/token"
	"testing"

	"github.com/goplus/xgo/ast/fromgo"
)

// Witness of the recorded C37 finding: goIdents/gopIdents turn the nil name list of an anonymous parameter or
// result into an empty non-nil slice; the printers take `Names == nil` as "anonymous", so a single unnamed result
// comes back parenthesised: `func f() int` is printed as `func f() (int)` after the round trip. (The repository's
// own golden test ast/togo TestBasic expects the parenthesised form, so this is recorded, not repaired.)
func TestGovcWitnessAnonResult(t *testing.T) {
	const src = "package p\n\nfunc f() int\n"
	fset := token.NewFileSet()
	f, err := parser.ParseFile(fset, "p.go", src, 0)
	if err != nil {
		t.Fatal(err)
	}
	back := ASTFile(fromgo.ASTFile(f, 0), 0)
	print := func(d ast.Decl) string {
		fd := *d.(*ast.FuncDecl)
		fd.Body = nil
		var b bytes.Buffer
		if err := format.Node(&b, token.NewFileSet(), &fd); err != nil {
			t.Fatal(err)
		}
		return b.String()
	}
	if got, want := print(back.Decls[0]), print(f.Decls[0]); got != want {
		t.Fatalf("header after the round trip: %q, original: %q", got, want)
	}
}
