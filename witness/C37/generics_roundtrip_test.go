package togo

import (
	"bytes"
	"go/ast"
	"go/format"
	"go/parser"
	"go/token"
	"testing"

	"github.com/goplus/xgo/ast/fromgo"
)

// Witness of the C37 finding fixed by "fix: ast/togo: keep type parameters and multi-index instantiations":
// converting the declarations of a Go file to the XGo tree and back must give declarations with the same printed
// headers, also for generic functions and types and for instantiations with several type arguments.
func TestGovcWitnessGenericsRoundTrip(t *testing.T) {
	const src = `package p

func Map[T, U any](xs []T, f func(T))

type Pair[K comparable, V any] struct {
	Key K
	Val V
}

var P Pair[string, int]
`
	fset := token.NewFileSet()
	f, err := parser.ParseFile(fset, "p.go", src, 0)
	if err != nil {
		t.Fatal(err)
	}
	var back *ast.File
	func() {
		defer func() {
			if e := recover(); e != nil {
				t.Fatalf("conversion panicked: %v", e)
			}
		}()
		back = ASTFile(fromgo.ASTFile(f, 0), 0)
	}()
	print := func(decls []ast.Decl) string {
		var b bytes.Buffer
		for _, d := range decls {
			if fd, ok := d.(*ast.FuncDecl); ok {
				c := *fd
				c.Body = nil
				d = &c
			}
			if err := format.Node(&b, token.NewFileSet(), d); err != nil {
				t.Fatal(err)
			}
			b.WriteString("\n")
		}
		return b.String()
	}
	if got, want := print(back.Decls), print(f.Decls); got != want {
		t.Fatalf("declaration headers differ after the round trip:\n--- got\n%s--- want\n%s", got, want)
	}
}
